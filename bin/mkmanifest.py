#!/usr/bin/env python3
"""Regenerates /verif/MANIFEST.json from the table below and validates it against the schema."""
import json, os, sys
ROOT = os.path.dirname(os.path.dirname(os.path.abspath(__file__)))
PROPS = [json.loads(l) for l in open(os.path.join(ROOT, "properties.jsonl"))]

# id -> (engine, technique, level text, level note, design ref)
CHECKS = {
    "C01": ("lmcheck", "proptest generated cases + deterministic length sweep; oracle = linear-sequence reference model (f32 defined order, f64 error bound) and differential across all backends / dispatcher arms",
            "Exploration: every generated (alphabet, layout, length, sequence, matrix, sub-range) case is scored by every backend implemented on x86-64 and compared value by value with a reference computed from the linear sequence; failures shrink to a JSON replay. Decides the property on everything generated, does not prove absence.",
            "Trusts: the reference model in harness/lmcheck/src/gen.rs (ref_scores_*), rustc/LLVM, the host's AVX2/SSE2 units; NEON not executed.", "DESIGN.md §3 C01"),
}
NOT_BUILT_REASON = "check under construction in this session (see DESIGN.md §10 build order); not claimed until it runs end to end"

def main():
    checks = []
    for p in PROPS:
        pid = p["id"]
        if pid not in CHECKS:
            continue
        eng, tech, text, note, ref = CHECKS[pid]
        checks.append({
            "property_id": pid,
            "quick_cmd": f"bin/check {pid} quick",
            "thorough_cmd": f"bin/check {pid} thorough",
            "evidence_file": f"/verif/evidence/{pid}.json",
            "replay_cmd_template": "bin/check replay {path}",
            "engine": eng,
            "level_claimed": {"category": "exploration", "text": text, "design_ref": ref},
            "level_note": note,
            "technique": tech,
        })
    manifest = {
        "version": 1,
        "setup_cmd": "bin/setup",
        "hooks": {
            "guard": "cargo feature `verif-hooks` of crate lightmotif (off by default)",
            "enable": "the harness crates depend on lightmotif by path with features = [\"verif-hooks\"]; cargo feature unification turns it on for every repo crate in the harness build",
            "baseline_off_cmd": "cd /repo && cargo test --workspace --no-fail-fast --offline",
            "source_commits": ["b1c2a93"],
            "add_only": True,
        },
        "engines": [
            {"name": "lmcheck", "path": "harness/lmcheck", "serves_properties": sorted(k for k, v in CHECKS.items() if v[0] == "lmcheck"),
             "kind_free_text": "Rust binary using proptest as a library (fixed seeds, shrinking, JSON replay files), 16 worker shards, per-property oracles"},
        ],
        "checks": checks,
        "not_applicable": [{"property_id": p["id"], "reason": NOT_BUILT_REASON} for p in PROPS if p["id"] not in CHECKS],
        "notes": "All randomness is a function of VERIF_SEED (default 1). VERIF_SCALE multiplies generated case counts. Exit 2 = inconclusive (build failure, watchdog), never a violation.",
    }
    out = os.path.join(ROOT, "MANIFEST.json")
    json.dump(manifest, open(out, "w"), indent=1)
    try:
        import jsonschema
        jsonschema.validate(manifest, json.load(open("/root/.vp/MANIFEST.schema.json")))
        print("MANIFEST.json valid,", len(checks), "checks")
    except ImportError:
        print("jsonschema not importable here; wrote MANIFEST.json unvalidated")
if __name__ == "__main__":
    main()
