#!/usr/bin/env python3
"""Coverage-guided half of C06 and C15: builds and drives the cargo-fuzz targets.

  fuzzrun.py C06 quick|thorough      target c06_ops (ASan) + ASan build of the proptest checks
  fuzzrun.py C15 quick|thorough      target c15_readers; merges into evidence/C15.json written by lmcheck
  fuzzrun.py replay <file.fuzz>      re-execute one saved input on its target

Exit: 0 nothing found, 1 violation (VIOLATION line printed), 2 inconclusive (build failure, timeout, OOM).
Quick tier = fixed work (corpus replay + a fixed number of libFuzzer runs per worker, seeds derived
from VERIF_SEED); thorough tier = the same plus 16 workers under a wall-clock budget (VERIF_FUZZ_SECONDS).
"""
import glob, hashlib, json, os, re, shutil, subprocess, sys, time

VERIF = os.path.dirname(os.path.dirname(os.path.abspath(__file__)))
FUZZ = os.path.join(VERIF, "fuzz")
BIN_DIR = os.path.join(FUZZ, "target", "x86_64-unknown-linux-gnu", "release")
TARGETS = {"C06": "c06_ops", "C15": "c15_readers"}
SEED = int(os.environ.get("VERIF_SEED", "1") or 1)
WORKERS = int(os.environ.get("VERIF_THREADS", "16") or 16)
ENV = dict(os.environ, CARGO_NET_OFFLINE="true", ASAN_OPTIONS="detect_leaks=0:abort_on_error=1:symbolize=1", RUST_BACKTRACE="0")


def sh(cmd, env=None, **kw):
    return subprocess.run(cmd, stdout=subprocess.PIPE, stderr=subprocess.STDOUT, text=True, errors="replace", env=env or ENV, **kw)


def build(target):
    r = sh(["cargo", "+nightly", "fuzz", "build", target], cwd=VERIF)
    if r.returncode != 0:
        sys.stderr.write(r.stdout[-4000:])
        print("BUILD FAILED (inconclusive, not a violation): cargo fuzz build " + target, file=sys.stderr)
        sys.exit(2)
    return os.path.join(BIN_DIR, target)


GUARD_DIR = os.path.join(FUZZ, "target-guard")


def build_guard(target):
    """The same target without sanitizer and WITHOUT debug assertions (-O: a true release build, where a side
    effect hidden in a debug_assert! is compiled out) but with the guard allocator (harness/lmcheck/src/guard.rs): makes
    out-of-bounds WRITES of the kernels' inline-asm non-temporal stores observable, which ASan cannot see."""
    r = sh(["cargo", "+nightly", "fuzz", "build", "-O", "-s", "none", "--features", "guard-alloc", "--target-dir", GUARD_DIR, target], cwd=VERIF)
    if r.returncode != 0:
        sys.stderr.write(r.stdout[-4000:])
        print("BUILD FAILED (inconclusive, not a violation): cargo fuzz build -s none --features guard-alloc " + target, file=sys.stderr)
        sys.exit(2)
    return os.path.join(GUARD_DIR, "x86_64-unknown-linux-gnu", "release", target)


def signature(output):
    """Stable signature of a crash: sanitizer summary (kind + function) or panic site, no addresses / line numbers."""
    m = re.search(r"GUARD-ALLOC: .* guard bytes overwritten (before|after) the block", output)
    if m:
        return "guard-alloc:write-%s-heap-block" % m.group(1)
    m = re.search(r"SUMMARY: AddressSanitizer: (\S+) .*? in (\S+)", output)
    if m:
        frames = re.findall(r"#\d+ 0x[0-9a-f]+ in (\S+) (/repo/[^\s:]+)", output)
        where = frames[0] if frames else (m.group(2), "")
        return "asan:%s in %s %s" % (m.group(1), re.sub(r"::<.*", "", where[0]), where[1].replace("/repo/", ""))
    m = re.search(r"panicked at (/repo/)?([^\s:]+):\d+:\d+:\s*\n?(.*)", output)
    if m:
        return "panic@%s: %s" % (m.group(2), re.sub(r"\d+", "#", m.group(3).strip())[:80])
    m = re.search(r"^(C\d\d: .*)$", output, re.M)
    if m:
        return "harness-abort: " + re.sub(r"0x[0-9a-f]+|\d+", "#", m.group(1))[:100]
    if "libFuzzer: timeout" in output:
        if "CONFIRMED-HANG" in output:
            # the innermost frame is wherever the alarm happened to interrupt the loop: key on the OUTERMOST
            # frame inside the repository, i.e. the library entry point that did not return
            frames = re.findall(r"#\d+ 0x[0-9a-f]+ in (.+?) (/repo/[^\s:]+)", output)
            if frames:
                fn, path = frames[-1]
                return "hang: %s (%s) does not return" % (path.replace("/repo/", ""), fn.rsplit("::", 1)[-1])
            return "hang: call does not return"
        return "timeout"
    if "out-of-memory" in output:
        return "oom"
    m = re.search(r"==\d+==ERROR: (\S+): (\S+)", output)
    if m:
        return "%s:%s" % (m.group(1), m.group(2))
    return "crash:unclassified"


def load_known(prop):
    try:
        d = json.load(open(os.path.join(VERIF, "known_findings.json")))
    except Exception:
        return []
    return [f for f in d.get("findings", []) if f.get("property") == prop and f.get("status") == "open"]


HANG_TIMEOUT = 25   # libFuzzer -timeout for c15_readers (wall clock, first detection only)
HANG_CPU = 20.0     # CPU seconds the single-input re-run must have burnt for the timeout to count as a hang


def run_one(binary, path):
    """Run the target on one saved input. For c15_readers (property: the readers never hang) a libFuzzer
    timeout is confirmed by CPU time: the re-run is a single process on a single input of a few KB whose
    normal cost is microseconds; if it is killed by the alarm after having CONSUMED >= 20 CPU seconds
    (user+system, from wait4 - so a loaded machine cannot cause it) the output is marked as a hang."""
    is_c15 = os.path.basename(binary).startswith("c15_readers")
    cmd = [binary, path, "-timeout=%d" % (HANG_TIMEOUT if is_c15 else 60), "-rss_limit_mb=4096"]
    if not is_c15:
        r = sh(cmd, cwd=FUZZ)
        return r.returncode, r.stdout
    p = subprocess.Popen(cmd, stdout=subprocess.PIPE, stderr=subprocess.STDOUT, cwd=FUZZ, env=ENV)
    out = p.stdout.read().decode("utf-8", "replace")
    _, status, ru = os.wait4(p.pid, 0)
    p.returncode = os.waitstatus_to_exitcode(status)
    cpu = ru.ru_utime + ru.ru_stime
    if "libFuzzer: timeout" in out and cpu >= HANG_CPU:
        out += "\nCONFIRMED-HANG cpu=%.1fs\n" % cpu
    return p.returncode, out


def replay(path):
    base = os.path.basename(path)
    target = next((t for t in TARGETS.values() if base.startswith(t)), None)
    if target is None:
        print("cannot tell the fuzz target of %s (expected <target>-*.fuzz)" % path, file=sys.stderr)
        return 2
    prop = next(k for k, v in TARGETS.items() if v == target)
    binary = build_guard(target) if "-guard-" in base else build(target)
    rc, out = run_one(binary, path)
    if rc == 0:
        print("PASS property=%s target=%s" % (prop, target))
        return 0
    sig = signature(out)
    print(sig)
    if sig in ("timeout", "oom"):
        print("INCONCLUSIVE: %s" % sig)
        return 2
    print("VIOLATION property=%s replay=%s" % (prop, path))
    return 1


def main():
    if len(sys.argv) >= 3 and sys.argv[1] == "replay":
        sys.exit(replay(os.path.abspath(sys.argv[2])))
    prop, tier = sys.argv[1], (sys.argv[2] if len(sys.argv) > 2 else "quick")
    target = TARGETS[prop]
    t0 = time.time()
    binary = build(target)
    known = load_known(prop)
    violations, known_lines, inconclusive = 0, [], False

    reported = set()

    def judge(sig, out, saved):
        nonlocal violations, inconclusive
        if sig in reported:
            return  # one report per root-cause signature
        reported.add(sig)
        if sig in ("timeout", "oom"):
            print("INCONCLUSIVE: %s on %s (saved, not a violation)" % (sig, saved))
            inconclusive = True
            return
        k = next((f for f in known if sig in f.get("signatures", [])), None)
        if k:
            line = "KNOWN-FINDING: property=%s %s [%s]" % (prop, k["what"], k["id"])
            if line not in known_lines:
                known_lines.append(line)
                print(line)
        else:
            print("[%s/%s] %s" % (prop, target, sig))
            print("VIOLATION property=%s replay=%s" % (prop, saved))
            violations += 1

    # ---- replay tier: committed regression inputs --------------------------------
    replayed = 0
    for f in sorted(glob.glob(os.path.join(VERIF, "regress", prop, target + "-*.fuzz"))):
        replayed += 1
        rc, out = run_one(binary, f)
        if rc != 0:
            judge(signature(out), out, f)

    # ---- generated tier ---------------------------------------------------------
    corpus = os.path.join(VERIF, "corpus", target)
    work = os.path.join(FUZZ, "work", "%s-%d" % (target, os.getpid()))
    shutil.rmtree(work, ignore_errors=True)
    os.makedirs(work)
    runs = {"quick": {"c06_ops": 1200, "c15_readers": 12000}, "thorough": {"c06_ops": 20000, "c15_readers": 400000}}[tier][target]
    runs = int(runs * float(os.environ.get("VERIF_SCALE", "1") or 1))
    budget = int(os.environ.get("VERIF_FUZZ_SECONDS", "900")) if tier == "thorough" else 0
    max_len = {"c06_ops": 256, "c15_readers": 4096}[target]
    procs = []
    for k in range(WORKERS):
        cdir = os.path.join(work, "corpus%d" % k)
        # worker 0 starts from an EMPTY corpus, the others from the committed seeds
        if k == 0 or not os.path.isdir(corpus):
            os.makedirs(cdir)
        else:
            shutil.copytree(corpus, cdir)
        args = [binary, cdir, "-seed=%d" % (SEED * 1000 + k + 1), "-max_len=%d" % max_len, "-len_control=0", "-timeout=%d" % (HANG_TIMEOUT if target == "c15_readers" else 60), "-rss_limit_mb=4096",
                "-artifact_prefix=%s/w%d-" % (work, k), "-print_final_stats=1", "-runs=%d" % runs]
        if budget:
            args += ["-max_total_time=%d" % budget]
        log = open(os.path.join(work, "log%d.txt" % k), "w")
        procs.append((subprocess.Popen(args, stdout=log, stderr=subprocess.STDOUT, cwd=FUZZ, env=ENV), log))
    executed = 0
    for k, (p, log) in enumerate(procs):
        p.wait()
        log.close()
        out = open(os.path.join(work, "log%d.txt" % k), errors="replace").read()
        m = re.search(r"stat::number_of_executed_units: (\d+)", out)
        if m:
            executed += int(m.group(1))
        else:
            executed += len(re.findall(r"^#\d+", out, re.M)) and int(re.findall(r"^#(\d+)", out, re.M)[-1])
        for art in re.findall(r"Test unit written to (\S+)", out):
            if not os.path.exists(art):
                continue
            data = open(art, "rb").read()
            dst_dir = os.path.join(VERIF, "replays", prop)
            os.makedirs(dst_dir, exist_ok=True)
            dst = os.path.join(dst_dir, "%s-%s.fuzz" % (target, hashlib.sha1(data).hexdigest()[:16]))
            shutil.copy(art, dst)
            rc, o2 = run_one(binary, dst)
            judge(signature(o2 if rc != 0 else out), out, dst)

    # ---- what was explored: classification pass over every corpus input ----------
    inputs = {}
    for d in [corpus] + glob.glob(os.path.join(work, "corpus*")):
        for f in glob.glob(os.path.join(d, "*")):
            if os.path.isfile(f):
                b = open(f, "rb").read()
                inputs.setdefault(hashlib.sha1(b).hexdigest(), (f, b))
    classes, samples, nontrivial = {}, [], 0
    if target == "c06_ops":
        stats_file = os.path.join(work, "stats.jsonl")
        files = [v[0] for v in inputs.values()]
        for i in range(0, len(files), 400):
            sh([binary] + files[i:i + 400] + ["-rss_limit_mb=4096"], cwd=FUZZ, env=dict(ENV, LM_FUZZ_STATS=stats_file))
        # ---- guard-allocator pass: every input of the final corpora (and the committed regression inputs)
        #      through the sanitizer-free build whose allocator verifies guard bytes around each heap block
        gbin = build_guard(target)
        guard_inputs = files + sorted(glob.glob(os.path.join(VERIF, "regress", prop, target + "-*.fuzz")))
        guard_runs = 0
        for i in range(0, len(guard_inputs), 400):
            batch = guard_inputs[i:i + 400]
            while batch:
                r = sh([gbin] + batch + ["-rss_limit_mb=4096", "-timeout=60"], cwd=FUZZ)
                if r.returncode == 0:
                    guard_runs += len(batch)
                    break
                # the input being run when the process died is the last one announced
                ran = re.findall(r"^Running: (\S+)", r.stdout, re.M)
                guard_runs += len(ran)
                if not ran:
                    break
                bad = ran[-1]
                data = open(bad, "rb").read()
                dst_dir = os.path.join(VERIF, "replays", prop)
                os.makedirs(dst_dir, exist_ok=True)
                dst = os.path.join(dst_dir, "%s-guard-%s.fuzz" % (target, hashlib.sha1(data).hexdigest()[:16]))
                shutil.copy(bad, dst)
                judge(signature(r.stdout), r.stdout, dst)
                batch = batch[batch.index(bad) + 1:] if bad in batch else []
        classes["replayed-under-guard-allocator"] = guard_runs
        seen = set()
        for line in open(stats_file) if os.path.exists(stats_file) else []:
            try:
                s = json.loads(line)
            except Exception:
                continue
            key = json.dumps(s, sort_keys=True)
            if key in seen:
                continue
            seen.add(key)
            for o in set(s["ops"]):
                classes["op:" + o] = classes.get("op:" + o, 0) + 1
            classes["alphabet:" + s["alphabet"]] = classes.get("alphabet:" + s["alphabet"], 0) + 1
            if s["max_len"] >= 993 and s["max_len"] % 32:
                classes["L>=993 and L%32!=0"] = classes.get("L>=993 and L%32!=0", 0) + 1
            if s["panics"]:
                classes["input-with-caught-panic"] = classes.get("input-with-caught-panic", 0) + 1
            if len(s["ops"]) >= 3 and s["simd_on_reused"]:
                nontrivial += 1
                if len(samples) < 5:
                    samples.append(s)
        rule = ("libFuzzer (ASan, debug assertions) on target c06_ops: bytes decoded into <= 48 in-contract API calls on a pool of live objects "
                "(encode / stripe / configure_wrap / score f32+u8 / max-argmax-threshold / scanner / sampler / clone / dense matrix / sample / conversions, "
                "every backend and forced dispatcher arm; every cell of every striped sequence made on the way must hold a symbol of the alphabet - the kernels index matrix rows with those bytes through gathers / permutes no sanitizer instruments; on DNA, protein, and - first byte >= 192 - alphabets of 9, 12 and 16 symbols declared by the caller through the public traits, sizes between the library's own 5 and 21); distinct = distinct op-class records over the final corpus; non-trivial = >= 3 ops with a SIMD kernel "
                "run on an object that was resized or reused; every input of the final corpora is then replayed through a sanitizer-free build with a guard "
                "allocator (pattern bytes around every heap block, verified on free), because the kernels' non-temporal stores are inline asm and their "
                "out-of-bounds writes are invisible to AddressSanitizer")
    else:
        names = ["jaspar", "jaspar16-dna", "jaspar16-protein", "transfac-dna", "transfac-protein", "uniprobe-dna", "uniprobe-protein"]
        for h, (f, b) in inputs.items():
            if len(b) < 2:
                continue
            c = "reader:" + names[b[0] % 7]
            classes[c] = classes.get(c, 0) + 1
            classes["chunking:%d" % (b[1] % 6)] = classes.get("chunking:%d" % (b[1] % 6), 0) + 1
            if len(b) > 2:
                nontrivial += 1
                if len(samples) < 5:
                    samples.append({"reader": names[b[0] % 7], "chunking": b[1] % 6, "file": b[2:200].decode("latin-1")})
        rule = ("libFuzzer on target c15_readers: byte 0 selects format x alphabet, byte 1 the stream chunking, the rest is the file; corpus seeded with the repository's "
                "motif files and C14-generated files (worker 0 starts from an empty corpus); a panic or more than len+2 records aborts; distinct = distinct corpus inputs; "
                "non-trivial = non-empty file part")

    wall = time.time() - t0
    ev_path = os.path.join(VERIF, "evidence", prop + ".json")
    fuzz_cov = {
        "target": target, "libfuzzer_executions": executed, "regression_inputs_replayed": replayed, "final_corpus_inputs": len(inputs),
        "distinct_nontrivial": nontrivial, "classes": classes, "samples": samples, "rule": rule, "workers": WORKERS,
        "runs_per_worker": runs, "wall_clock_budget_s": budget, "known_findings_reported": known_lines,
    }
    if prop == "C15" and os.path.exists(ev_path):
        ev = json.load(open(ev_path))
        cov = ev["coverage"]
        cov["evaluations"] += executed + replayed
        cov["distinct_nontrivial"] += nontrivial
        cov["rule"] += " || [fuzz:c15_readers] " + rule
        cov["samples"] += [{"sub": "fuzz:c15_readers", "case": s} for s in samples[:3]]
        cov["fuzz"] = fuzz_cov
        ev["wall_s"] = round(ev.get("wall_s", 0) + wall, 3)
        ev["violations"] = ev.get("violations", 0) + violations
    else:
        ev = {
            "property_id": prop, "tier": tier, "seed": SEED, "level": "exploration",
            "coverage": {"evaluations": executed + replayed, "distinct_nontrivial": nontrivial, "rule": rule,
                         "samples": samples or [{"note": "no non-trivial input in the corpus of this run"}], "fuzz": fuzz_cov, "exhaustive": False},
            "assumptions": [
                "oracle = AddressSanitizer (out-of-bounds, use-after-free on every load/store incl. loadu/stream intrinsics), the kernels' debug assertions and explicit 32-byte alignment checks; uninitialised reads and invalid enum values are invisible to it",
                "panics are caught in-target and ignored: they are functional failures (C01-C05, C07, C08), not memory errors",
                "NEON code is not compiled on this host",
            ],
            "wall_s": round(wall, 3), "violations": violations,
        }
    os.makedirs(os.path.dirname(ev_path), exist_ok=True)
    json.dump(ev, open(ev_path, "w"), indent=1)
    print("[%s/fuzz:%s] executions=%d corpus=%d nontrivial=%d violations=%d (%.1fs)" % (prop, target, executed, len(inputs), nontrivial, violations, wall), file=sys.stderr)
    shutil.rmtree(work, ignore_errors=True)
    sys.exit(1 if violations else (2 if inconclusive else 0))


if __name__ == "__main__":
    main()
