#!/usr/bin/env python3
"""C06 driver: (1) libFuzzer+ASan target c06_ops, (2) the proptest checks of C01-C05, C07, C08 rebuilt with
AddressSanitizer and run in child processes, (3) the same checks rebuilt with the guard allocator
(harness/lmcheck/src/guard.rs: guard bytes around every heap block, verified when it is freed) - the engine
for out-of-bounds WRITES of the SIMD kernels, whose non-temporal stores are inline asm and invisible to the
sanitizer. A child killed by the sanitizer / the guard allocator (or a hardware fault on a misaligned aligned
access) is a C06 violation, and the case it died in is recovered from a trace file.

  c06.py quick|thorough
  c06.py replay <replays/C06/asan-*.json | replays/C06/guard-*.json>
"""
import glob, hashlib, json, os, re, shutil, subprocess, sys, time

VERIF = os.path.dirname(os.path.dirname(os.path.abspath(__file__)))
HARNESS = os.path.join(VERIF, "harness")
ASAN_BIN = os.path.join(HARNESS, "target-asan", "x86_64-unknown-linux-gnu", "asan", "lmcheck")
GUARD_BIN = os.path.join(HARNESS, "target-guard", "release", "lmcheck")
ENV = dict(os.environ, CARGO_NET_OFFLINE="true", ASAN_OPTIONS="detect_leaks=0:abort_on_error=1:symbolize=1")
PROPS = ["C01", "C02", "C03", "C04", "C05", "C07", "C08", "C16", "C19"]


def build_asan():
    env = dict(ENV, RUSTFLAGS="-Zsanitizer=address")
    r = subprocess.run(["cargo", "+nightly", "build", "--offline", "--profile", "asan", "--target", "x86_64-unknown-linux-gnu", "-p", "lmcheck",
                        "--target-dir", os.path.join(HARNESS, "target-asan")], cwd=HARNESS, env=env, stdout=subprocess.PIPE, stderr=subprocess.STDOUT, text=True)
    if r.returncode != 0:
        sys.stderr.write(r.stdout[-4000:])
        print("BUILD FAILED (inconclusive, not a violation): ASan build of lmcheck", file=sys.stderr)
        sys.exit(2)


def build_guard():
    r = subprocess.run(["cargo", "build", "--offline", "--release", "-p", "lmcheck", "--features", "guard-alloc",
                        "--target-dir", os.path.join(HARNESS, "target-guard")], cwd=HARNESS, env=ENV, stdout=subprocess.PIPE, stderr=subprocess.STDOUT, text=True)
    if r.returncode != 0:
        sys.stderr.write(r.stdout[-4000:])
        print("BUILD FAILED (inconclusive, not a violation): guard-allocator build of lmcheck", file=sys.stderr)
        sys.exit(2)


def crashed(rc, out):
    return rc not in (0, 1, 2) or "AddressSanitizer" in out or "GUARD-ALLOC:" in out or "SIGSEGV" in out or "SIGBUS" in out


def signature(out):
    m = re.search(r"GUARD-ALLOC: .* guard bytes overwritten (before|after) the block", out)
    if m:
        return "guard-alloc:write-%s-heap-block" % m.group(1)
    m = re.search(r"SUMMARY: AddressSanitizer: (\S+)", out)
    frames = re.findall(r"#\d+ 0x[0-9a-f]+ in (\S*lightmotif\S*) (/repo/[^\s:]+)", out) or re.findall(r"#\d+ 0x[0-9a-f]+ in (\S*lightmotif\S*)()", out)
    if m:
        w = frames[0] if frames else ("?", "")
        return "asan:%s in %s %s" % (m.group(1), re.sub(r"::<.*", "", w[0]), w[1].replace("/repo/", ""))
    m = re.search(r"panicked at (/repo/)?([^\s:]+):\d+:\d+:\s*\n?(.*)", out)
    if m and "assert" in out:
        return "debug-assert@%s: %s" % (m.group(2), re.sub(r"\d+", "#", m.group(3).strip())[:80])
    return "fatal-signal-in-child"


def replay(path):
    guard = os.path.basename(path).startswith("guard-")
    if guard:
        build_guard()
    else:
        build_asan()
    r = subprocess.run([GUARD_BIN if guard else ASAN_BIN, "replay", path], env=dict(ENV, VERIF_DIR=VERIF), stdout=subprocess.PIPE, stderr=subprocess.STDOUT, text=True, errors="replace")
    if crashed(r.returncode, r.stdout):
        print(signature(r.stdout))
        print("VIOLATION property=C06 replay=%s" % path)
        return 1
    print("PASS property=C06 (no memory error under %s)" % ("the guard allocator" if guard else "AddressSanitizer"))
    return 0


def main():
    if len(sys.argv) >= 3 and sys.argv[1] == "replay":
        sys.exit(replay(os.path.abspath(sys.argv[2])))
    tier = sys.argv[1] if len(sys.argv) > 1 else "quick"
    t0 = time.time()
    rc_fuzz = subprocess.run([sys.executable, os.path.join(VERIF, "bin", "fuzzrun.py"), "C06", tier]).returncode
    build_asan()
    build_guard()
    work = os.path.join(HARNESS, "asan-work-%d" % os.getpid())
    shutil.rmtree(work, ignore_errors=True)
    os.makedirs(os.path.join(work, "trace"))
    # the children write replays / evidence into the scratch directory, but they need the committed known
    # findings and their regression inputs: without them the open finding KF06 stops C02 / C03 / C08 at their
    # first u8-wrap case and next to nothing is explored under the sanitizer
    shutil.copy(os.path.join(VERIF, "known_findings.json"), work)
    shutil.copytree(os.path.join(VERIF, "regress"), os.path.join(work, "regress"))
    violations, cases, per_prop = 0, 0, {}
    guard_cases, guard_per_prop = 0, {}
    try:
        known = [f for f in json.load(open(os.path.join(VERIF, "known_findings.json")))["findings"] if f["property"] == "C06" and f["status"] == "open"]
    except Exception:
        known = []
    reported = set()
    # committed regression cases of this part (asan-*.json under the sanitizer, guard-*.json under the guard allocator)
    for prefix, binary in (("asan", ASAN_BIN), ("guard", GUARD_BIN)):
        for f in sorted(glob.glob(os.path.join(VERIF, "regress", "C06", prefix + "-*.json"))):
            r = subprocess.run([binary, "replay", f], env=dict(ENV, VERIF_DIR=work), stdout=subprocess.PIPE, stderr=subprocess.STDOUT, text=True, errors="replace")
            if crashed(r.returncode, r.stdout):
                sig = signature(r.stdout)
                k = next((x for x in known if sig in x["signatures"]), None)
                if k:
                    print("KNOWN-FINDING: property=C06 %s [%s]" % (k["what"], k["id"]))
                else:
                    print("[C06/%s-proptest] %s" % (prefix, sig))
                    print("VIOLATION property=C06 replay=%s" % f)
                    violations += 1
    scale = {"quick": "0.25", "thorough": "2"}[tier]
    for prefix, binary in (("asan", ASAN_BIN), ("guard", GUARD_BIN)):
        for p in PROPS:
            shutil.rmtree(os.path.join(work, "trace"), ignore_errors=True)
            os.makedirs(os.path.join(work, "trace"))
            env = dict(ENV, VERIF_DIR=work, LMCHECK_TRACE=os.path.join(work, "trace"), VERIF_SCALE=os.environ.get("VERIF_C06_SCALE", scale))
            r = subprocess.run([binary, p, "quick"], env=env, stdout=subprocess.PIPE, stderr=subprocess.STDOUT, text=True, errors="replace")
            n = sum(int(a) + int(b) for a, b in re.findall(r"random=(\d+) sweep=(\d+)", r.stdout))
            if prefix == "asan":
                cases += n
                per_prop[p] = n
            else:
                guard_cases += n
                guard_per_prop[p] = n
            if crashed(r.returncode, r.stdout):
                sig = signature(r.stdout)
                # which case was being checked? replay the traced candidates
                culprit = None
                for t in sorted(glob.glob(os.path.join(work, "trace", p + "-*.json"))):
                    rr = subprocess.run([binary, "replay", t], env=dict(ENV, VERIF_DIR=work), stdout=subprocess.PIPE, stderr=subprocess.STDOUT, text=True, errors="replace")
                    if crashed(rr.returncode, rr.stdout):
                        culprit = t
                        sig = signature(rr.stdout)
                        break
                dst_dir = os.path.join(VERIF, "replays", "C06")
                os.makedirs(dst_dir, exist_ok=True)
                if culprit:
                    data = open(culprit, "rb").read()
                    dst = os.path.join(dst_dir, "%s-%s-%s.json" % (prefix, p, hashlib.sha1(data).hexdigest()[:16]))
                    shutil.copy(culprit, dst)
                else:
                    dst = os.path.join(dst_dir, "%s-%s-unlocated.log" % (prefix, p))
                    open(dst, "w").write(r.stdout[-20000:])
                k = next((x for x in known if sig in x["signatures"]), None)
                if k:
                    print("KNOWN-FINDING: property=C06 %s [%s]" % (k["what"], k["id"]))
                elif (prefix, sig) not in reported:
                    reported.add((prefix, sig))
                    print("[C06/%s-proptest:%s] %s" % (prefix, p, sig))
                    print("VIOLATION property=C06 replay=%s" % dst)
                    violations += 1
    shutil.rmtree(work, ignore_errors=True)
    # merge into the evidence written by fuzzrun.py
    ev_path = os.path.join(VERIF, "evidence", "C06.json")
    ev = json.load(open(ev_path))
    cov = ev["coverage"]
    cov["evaluations"] += cases
    cov["asan_proptest"] = {"cases_run_under_asan": cases, "per_property": per_prop,
                            "what": "the generated checks of C01 (scoring), C02/C03 (scanner), C04 (striping histories), C05 (encoding), C07 (maxima), C08 (8-bit kernels), C16 (sampler), C19 (dense matrix histories) rebuilt with -Zsanitizer=address and debug assertions, run in child processes; a child killed by the sanitizer is a C06 violation"}
    cov["evaluations"] += guard_cases
    cov["guard_proptest"] = {"cases_run_under_the_guard_allocator": guard_cases, "per_property": guard_per_prop,
                             "what": "the same generated checks rebuilt with a guard allocator (2048 pattern bytes before and after every heap block, verified when the block is freed): observes out-of-bounds WRITES of the SIMD kernels, whose non-temporal stores (_mm256_stream_ps / _mm256_stream_si256 / _mm_stream_ps) are inline asm in core::arch and are not instrumented by AddressSanitizer"}
    cov["rule"] += " || [guard-proptest] the same generators re-run under the guard allocator"
    cov["rule"] += " || [asan-proptest] C01/C02/C03/C04/C05/C07/C08/C16/C19 generators re-run under AddressSanitizer (counted in evaluations, not in distinct_nontrivial)"
    ev["violations"] = ev.get("violations", 0) + violations
    ev["wall_s"] = round(time.time() - t0, 3)
    ev["tier"] = tier
    json.dump(ev, open(ev_path, "w"), indent=1)
    print("[C06/asan-proptest] cases=%d %s [C06/guard-proptest] cases=%d %s violations=%d (%.1fs)" % (cases, per_prop, guard_cases, guard_per_prop, violations, time.time() - t0), file=sys.stderr)
    if violations or rc_fuzz == 1:
        sys.exit(1)
    sys.exit(2 if rc_fuzz == 2 else 0)


if __name__ == "__main__":
    main()
