//! C06: no safe API call reads or writes outside the memory it owns.
//!
//! The input bytes are decoded (arbitrary::Unstructured, by hand) into a sequence
//! of in-contract calls to the safe public API on a small pool of live objects.
//! Lengths come from decoded integers and contents from a decoded PRNG seed, so a
//! short input can ask for a 1000-symbol sequence. Oracle: AddressSanitizer, the
//! kernels' own debug assertions (alignment), and explicit alignment checks that
//! abort. Panics are NOT memory errors: they are caught and ignored here (they
//! belong to the functional properties).
//!
//! With LM_FUZZ_STATS=<file> set, one JSON line per input is appended to the file
//! (op classes) — used by the evidence pass, not by the fuzzer.
#![no_main]

#[cfg(feature = "guard-alloc")]
#[path = "../../harness/lmcheck/src/guard.rs"]
mod guard;
#[cfg(feature = "guard-alloc")]
#[global_allocator]
static GLOBAL: guard::GuardAlloc = guard::GuardAlloc;

#[path = "../../harness/lmcheck/src/userabc.rs"]
mod userabc;

use std::io::Write;
use std::panic::{catch_unwind, AssertUnwindSafe};
use std::sync::Once;

use arbitrary::Unstructured;
use libfuzzer_sys::fuzz_target;
use lightmotif::abc::{Alphabet, Background, Dna, Protein, Symbol};
use lightmotif::dense::{DenseMatrix, MatrixCoordinates};
use lightmotif::num::{U16, U32, U7};
use lightmotif::pli::dispatch::Dispatch;
use lightmotif::pli::{Encode, Maximum, Pipeline, Score, Stripe, Threshold};
use lightmotif::pwm::{CountMatrix, ScoringMatrix};
use lightmotif::scores::StripedScores;
use lightmotif::seq::{EncodedSequence, StripedSequence};
use rand::rngs::StdRng;
use rand::SeedableRng;

static INIT: Once = Once::new();

fn splitmix(x: &mut u64) -> u64 {
    *x = x.wrapping_add(0x9E3779B97F4A7C15);
    let mut z = *x;
    z = (z ^ (z >> 30)).wrapping_mul(0xBF58476D1CE4E5B9);
    z = (z ^ (z >> 27)).wrapping_mul(0x94D049BB133111EB);
    z ^ (z >> 31)
}

/// Sequence lengths biased to the regions C06 names.
fn length(u: &mut Unstructured) -> usize {
    let sel = u.arbitrary::<u8>().unwrap_or(0);
    let x = u.arbitrary::<u16>().unwrap_or(0) as usize;
    match sel % 8 {
        0 | 1 => 993 + x % 108,               // AVX2 32x32 transpose region, mostly L % 32 != 0
        2 => (x % 80) * 32 + (sel as usize / 8) % 3, // multiples of the lane count +0..2
        3 => ((x % 80) * 16 + 15).saturating_sub((sel as usize / 8) % 3),
        4 | 5 => x % 71,
        6 => x % 5000,
        _ => 1024 + (x % 4) * 1024 + (sel as usize / 8),
    }
}

fn force(arm: u8) -> Option<Dispatch> {
    match arm % 4 {
        0 => Some(Dispatch::Generic),
        1 => Some(Dispatch::Sse2),
        2 => Some(Dispatch::Avx2),
        _ => None,
    }
}

fn check_aligned<T: lightmotif::dense::MatrixElement, C: lightmotif::num::ArrayLength>(what: &str, m: &DenseMatrix<T, C>) {
    for i in 0..m.rows() {
        let p = m[i].as_ptr() as usize;
        if p % 32 != 0 {
            eprintln!("C06: {} row {} starts at {:#x}, not 32-byte aligned", what, i, p);
            std::process::abort();
        }
    }
}

/// Every cell of a striped sequence - the cells past the end of the sequence and the look-ahead rows included - is
/// read by the kernels as a symbol and used as an index into a row of the scoring matrix (`vgatherdps`, `vpermps`,
/// `pshufb`: look-ups the sanitizer does not instrument), so every cell has to hold a symbol of the alphabet. Memory
/// the library never wrote shows up as 0xBE under AddressSanitizer (its fill for fresh blocks up to 4 KiB) and as
/// 0xAA under the guard allocator.
fn check_symbols<A: Alphabet, C: lightmotif::num::PositiveLength>(what: &str, s: &StripedSequence<A, C>) {
    if std::mem::size_of::<A::Symbol>() != 1 {
        return;
    }
    let k = A::symbols().len();
    let m = s.matrix();
    for i in 0..m.rows() {
        let row = &m[i];
        for j in 0..row.len() {
            let byte = unsafe { *(&row[j] as *const A::Symbol as *const u8) };
            if byte as usize >= k {
                eprintln!("C06: {} cell (row {}, column {}) holds byte {:#x}, not a symbol of the alphabet: uninitialised or foreign memory that the scoring kernels will use as an index", what, i, j, byte);
                std::process::abort();
            }
        }
    }
}

#[derive(Default)]
struct Stats {
    ops: Vec<&'static str>,
    max_len: usize,
    reused: bool,
    simd_on_reused: bool,
    panics: usize,
}

struct World<A: Alphabet> {
    text: Vec<u8>,
    enc: Vec<A::Symbol>,
    striped: StripedSequence<A, U32>,
    striped16: StripedSequence<A, U16>,
    pssm: ScoringMatrix<A>,
    scores: StripedScores<f32, U32>,
    scores16: StripedScores<f32, U16>,
    dscores: StripedScores<u8, U32>,
    touched: bool,
}

fn make_pssm<A: Alphabet>(width: usize, seed: u64, finite_wild: bool) -> ScoringMatrix<A> {
    let k = A::symbols().len();
    let mut s = seed;
    let mut dm = DenseMatrix::<u32, A::K>::new(width);
    for i in 0..width {
        for j in 0..k - 1 {
            dm[i][j] = (splitmix(&mut s) % 30) as u32;
        }
        if dm[i][..k - 1].iter().all(|&x| x == 0) {
            dm[i][0] = 1;
        }
    }
    let cm = CountMatrix::<A>::new(dm).unwrap();
    let mut pssm = cm.to_freq(0.25).to_scoring(None);
    if finite_wild {
        // rebuild with a finite wildcard column
        let mut data = DenseMatrix::<f32, A::K>::new(width);
        for i in 0..width {
            data[i].copy_from_slice(&pssm.matrix()[i]);
            data[i][k - 1] = -1.5;
        }
        pssm = ScoringMatrix::new(Background::uniform(), data);
    }
    pssm
}

fn run_ops<A: Alphabet>(u: &mut Unstructured, stats: &mut Stats, dna_ops: &dyn Fn(&mut Unstructured, &mut Stats, &[u8]))
where
    Pipeline<A, Dispatch>: Score<f32, A, U32> + Stripe<A, U32> + Encode<A>,
{
    let letters = A::as_str().as_bytes();
    let k = letters.len();
    let mut w: World<A> = World {
        text: Vec::new(),
        enc: Vec::new(),
        striped: StripedSequence::default(),
        striped16: StripedSequence::default(),
        pssm: make_pssm::<A>(3, 1, false),
        scores: StripedScores::empty(),
        scores16: StripedScores::empty(),
        dscores: StripedScores::empty(),
        touched: false,
    };
    let mut nops = 0;
    while !u.is_empty() && nops < 48 {
        nops += 1;
        let op = u.arbitrary::<u8>().unwrap_or(0);
        let arg = u.arbitrary::<u8>().unwrap_or(0);
        let r = catch_unwind(AssertUnwindSafe(|| {
            lightmotif::pli::verif_hooks::force_backend(None);
            match op % 14 {
                // --- new text + encode on a chosen backend
                0 | 1 => {
                    let len = length(u);
                    let mut s = u.arbitrary::<u64>().unwrap_or(7);
                    let invalid_at = if arg % 5 == 0 && len > 0 { Some(splitmix(&mut s) as usize % len) } else { None };
                    w.text = (0..len).map(|_| letters[(splitmix(&mut s) % if arg % 3 == 0 { k as u64 } else { k as u64 - 1 }) as usize]).collect();
                    if let Some(p) = invalid_at {
                        w.text[p] = b'z';
                    }
                    stats.max_len = stats.max_len.max(len);
                    let res = match arg % 6 {
                        0 => Pipeline::<A, _>::generic().encode_raw(&w.text),
                        1 => Pipeline::<A, _>::sse2().unwrap().encode_raw(&w.text),
                        2 => Pipeline::<A, _>::avx2().unwrap().encode_raw(&w.text),
                        n => {
                            lightmotif::pli::verif_hooks::force_backend(force(n as u8 - 3));
                            Pipeline::<A, Dispatch>::dispatch().encode_raw(&w.text)
                        }
                    };
                    stats.ops.push("encode");
                    if let Ok(v) = res {
                        w.enc = v;
                    }
                }
                // --- stripe (fresh or reused buffer) on a chosen backend
                2 | 3 => {
                    let reuse = arg & 1 == 1;
                    if reuse {
                        stats.reused = true;
                    }
                    match (arg >> 1) % 5 {
                        0 => {
                            let pli = Pipeline::<A, _>::generic();
                            if reuse { Stripe::<A, U32>::stripe_into(&pli, &w.enc, &mut w.striped) } else { w.striped = Stripe::<A, U32>::stripe(&pli, &w.enc) }
                        }
                        1 => {
                            let pli = Pipeline::<A, _>::avx2().unwrap();
                            if reuse { pli.stripe_into(&w.enc, &mut w.striped) } else { w.striped = pli.stripe(&w.enc) }
                            stats.simd_on_reused |= reuse;
                        }
                        2 => {
                            let pli = Pipeline::<A, _>::generic();
                            if reuse { Stripe::<A, U16>::stripe_into(&pli, &w.enc, &mut w.striped16) } else { w.striped16 = Stripe::<A, U16>::stripe(&pli, &w.enc) }
                        }
                        n => {
                            lightmotif::pli::verif_hooks::force_backend(force(n as u8 - 3 + (arg >> 5)));
                            let pli = Pipeline::<A, Dispatch>::dispatch();
                            if reuse { pli.stripe_into(&w.enc, &mut w.striped) } else { w.striped = EncodedSequence::<A>::new(w.enc.clone()).to_striped() }
                            stats.simd_on_reused |= reuse;
                        }
                    }
                    stats.ops.push("stripe");
                    w.touched = true;
                    check_aligned("striped sequence", w.striped.matrix());
                    check_aligned("striped sequence (16)", w.striped16.matrix());
                    check_symbols("striped sequence", &w.striped);
                    check_symbols("striped sequence (16)", &w.striped16);
                }
                // --- wrap rows
                4 => {
                    let m = (arg as usize) % 70;
                    w.striped.configure_wrap(m);
                    w.striped16.configure_wrap(m % 20);
                    stats.ops.push("configure_wrap");
                    w.touched = true;
                    check_aligned("striped sequence", w.striped.matrix());
                }
                // --- new scoring matrix
                5 => {
                    // mostly 1..40 rows; sometimes a motif of 90..389 rows, i.e. nearly as long as (or longer than)
                    // the sequence, so that there are fewer valid positions than striped rows
                    let width = if arg >= 232 { 90 + (arg as usize - 232) * 13 } else { 1 + (arg as usize) % 40 };
                    let seed = u.arbitrary::<u64>().unwrap_or(3);
                    w.pssm = make_pssm::<A>(width, seed, arg % 4 == 0);
                    stats.ops.push("new-pssm");
                    check_aligned("scoring matrix", w.pssm.matrix());
                }
                // --- f32 scoring, full or sub-range, into reused buffers
                6 | 7 => {
                    w.striped.configure(&w.pssm);
                    w.striped16.configure(&w.pssm);
                    let rows = w.striped.matrix().rows() - w.striped.wrap();
                    let a = if rows > 0 { (arg as usize * 7) % (rows + 1) } else { 0 };
                    let b = if rows > 0 { a + (u.arbitrary::<u8>().unwrap_or(0) as usize) % (rows - a + 1) } else { 0 };
                    let full = arg & 1 == 0;
                    macro_rules! go {
                        ($pli:expr, $seq:expr, $out:expr) => {{
                            let pli = $pli;
                            if full {
                                pli.score_into(&w.pssm, $seq, $out);
                            } else {
                                pli.score_rows_into(&w.pssm, $seq, a.min(($seq).matrix().rows() - ($seq).wrap())..b.min(($seq).matrix().rows() - ($seq).wrap()), $out);
                            }
                        }};
                    }
                    match (arg >> 1) % 6 {
                        0 => go!(Pipeline::<A, _>::generic(), &w.striped, &mut w.scores),
                        1 => go!(Pipeline::<A, _>::sse2().unwrap(), &w.striped, &mut w.scores),
                        2 => go!(Pipeline::<A, _>::avx2().unwrap(), &w.striped, &mut w.scores),
                        3 => go!(Pipeline::<A, _>::sse2().unwrap(), &w.striped16, &mut w.scores16),
                        4 => go!(Pipeline::<A, _>::generic(), &w.striped16, &mut w.scores16),
                        _ => {
                            lightmotif::pli::verif_hooks::force_backend(force(arg >> 4));
                            go!(Pipeline::<A, Dispatch>::dispatch(), &w.striped, &mut w.scores)
                        }
                    }
                    stats.ops.push("score-f32");
                    stats.simd_on_reused |= w.touched;
                    check_aligned("scores", w.scores.matrix());
                    check_aligned("scores (16)", w.scores16.matrix());
                }
                // --- max / argmax / threshold of the f32 scores
                8 => {
                    let t = (arg as f32) / 8.0 - 20.0;
                    match arg % 5 {
                        0 => {
                            let p = Pipeline::<A, _>::generic();
                            let _ = (Maximum::<f32, U32>::max(&p, &w.scores), Maximum::<f32, U32>::argmax(&p, &w.scores), Threshold::<f32, U32>::threshold(&p, &w.scores, t).len());
                        }
                        1 => {
                            let p = Pipeline::<A, _>::sse2().unwrap();
                            let _ = (Maximum::<f32, U32>::max(&p, &w.scores), Maximum::<f32, U32>::argmax(&p, &w.scores), Maximum::<f32, U16>::argmax(&p, &w.scores16));
                        }
                        2 => {
                            let p = Pipeline::<A, _>::avx2().unwrap();
                            let _ = (Maximum::<f32, U32>::max(&p, &w.scores), Maximum::<f32, U32>::argmax(&p, &w.scores), Threshold::<f32, U32>::threshold(&p, &w.scores, t).len());
                        }
                        n => {
                            lightmotif::pli::verif_hooks::force_backend(force(n as u8));
                            let _ = (w.scores.max(), w.scores.argmax(), w.scores.threshold(t).len(), w.scores.unstripe().len());
                        }
                    }
                    stats.ops.push("max-f32");
                }
                // --- clones, continue on the clone
                9 => {
                    let c = w.striped.clone();
                    w.striped = c;
                    let s = w.scores.clone();
                    w.scores = s;
                    let d = w.dscores.clone();
                    w.dscores = d;
                    stats.ops.push("clone");
                    w.touched = true;
                    check_aligned("cloned striped sequence", w.striped.matrix());
                    check_symbols("cloned striped sequence", &w.striped);
                    check_aligned("cloned scores", w.scores.matrix());
                }
                // --- dense matrix life cycle
                10 => {
                    if arg >= 240 {
                        // a size no allocator can serve: the call panics ("capacity overflow", caught like every
                        // panic here) - the object it was called on stays in use by the ops that follow, and
                        // whatever state the failed call left behind must still be memory-safe
                        stats.ops.push("failed-resize");
                        // (rows x row size overflows isize: Vec refuses before asking the allocator)
                        let huge = usize::MAX / 4;
                        match arg % 3 {
                            0 => w.scores.resize(huge, 7),
                            1 => w.dscores.resize(huge, 7),
                            _ => w.striped.configure_wrap(huge),
                        }
                    }
                    let rows = (arg as usize) % 40;
                    let mut m = DenseMatrix::<u32, U7>::with_capacity(rows, rows / 2);
                    check_aligned("dense", &m);
                    m.resize(rows * 2 + 1);
                    m.fill(7);
                    for (i, row) in m.iter_mut().enumerate() {
                        row[i % 7] = i as u32;
                    }
                    let c = m.clone();
                    m.resize(rows / 3);
                    let f = DenseMatrix::<u32, U7>::from_rows(c.iter());
                    let _ = f[MatrixCoordinates::new(0, 6)];
                    check_aligned("dense clone", &c);
                    check_aligned("dense from_rows", &f);
                    check_aligned("dense shrunk", &m);
                    let mut b = DenseMatrix::<u8, lightmotif::num::U43>::new(rows);
                    b.fill(1);
                    check_aligned("dense u8x43", &b);
                    stats.ops.push("dense");
                }
                // --- sampling
                11 => {
                    let len = length(u) % 1200;
                    let seed = u.arbitrary::<u64>().unwrap_or(1);
                    let s: StripedSequence<A, U32> = StripedSequence::sample(StdRng::seed_from_u64(seed), Background::uniform(), len);
                    check_aligned("sampled sequence", s.matrix());
                    check_symbols("sampled sequence", &s);
                    let e = EncodedSequence::<A>::sample(StdRng::seed_from_u64(seed), Background::uniform(), len);
                    w.enc = e.iter().cloned().collect();
                    if arg & 1 == 1 {
                        w.striped = s;
                        w.touched = true;
                    }
                    stats.ops.push("sample");
                }
                // --- conversions
                12 => {
                    let d = w.pssm.to_discrete();
                    check_aligned("discrete matrix", d.matrix());
                    if w.pssm.len() <= 12 {
                        let dist = w.pssm.to_score_distribution();
                        let _ = dist.pvalue(arg as f32 - 100.0);
                    }
                    let _ = (w.pssm.min_score(), w.pssm.max_score(), w.pssm.information_content());
                    stats.ops.push("convert");
                }
                // --- alphabet-specific ops (DNA: u8 kernels, scanner; see below)
                _ => {
                    dna_ops(u, stats, &w.text);
                }
            }
        }));
        if r.is_err() {
            stats.panics += 1;
        }
    }
    lightmotif::pli::verif_hooks::force_backend(None);
}

/// DNA-only operations: 8-bit kernels, scanner, sampler, reverse complement.
fn dna_specific(u: &mut Unstructured, stats: &mut Stats, text: &[u8]) {
    let arg = u.arbitrary::<u8>().unwrap_or(0);
    let arg2 = u.arbitrary::<u8>().unwrap_or(0);
    let seed = u.arbitrary::<u64>().unwrap_or(5);
    // the DNA text of the world if it is valid, else a generated one
    let len = if text.is_empty() { length(u) } else { text.len() };
    let mut s = seed;
    let idx: Vec<u8> = (0..len).map(|i| if !text.is_empty() && b"ACTGN".contains(&text[i]) { text[i] } else { b"ACTGN"[(splitmix(&mut s) % 5) as usize] }).collect();
    let enc = match EncodedSequence::<Dna>::encode(&idx) {
        Ok(e) => e,
        Err(_) => return,
    };
    let width = 1 + (arg as usize) % 33;
    let pssm = make_pssm::<Dna>(width, seed, arg % 3 == 0);
    lightmotif::pli::verif_hooks::force_backend(force(arg2));
    let mut striped: StripedSequence<Dna, U32> = if arg2 & 0x80 != 0 && len < 400 {
        // sampled sequences are allocated without any spare rows
        StripedSequence::sample(StdRng::seed_from_u64(seed), Background::uniform(), len)
    } else {
        enc.to_striped()
    };
    striped.configure(&pssm);
    if arg2 & 0x40 != 0 {
        // a clone's buffer ends right after its last row
        striped = striped.clone();
    }
    check_aligned("dna striped", striped.matrix());
    match arg2 % 5 {
        0 | 1 => {
            // 8-bit scoring + maxima on each backend
            let dm = pssm.to_discrete();
            let rows = striped.matrix().rows() - striped.wrap();
            let mut ds = StripedScores::<u8, U32>::empty();
            let a = if rows > 0 { (arg as usize) % rows } else { 0 };
            Pipeline::<Dna, _>::avx2().unwrap().score_rows_into(&dm, &striped, a..rows, &mut ds);
            check_aligned("u8 scores", ds.matrix());
            let p = Pipeline::<Dna, _>::avx2().unwrap();
            let _ = (Maximum::<u8, U32>::max(&p, &ds), Maximum::<u8, U32>::argmax(&p, &ds), Threshold::<u8, U32>::threshold(&p, &ds, arg).len());
            let _ = (ds.max(), ds.argmax(), ds.threshold(arg2).len());
            Pipeline::<Dna, Dispatch>::dispatch().score_into(&dm, &striped, &mut ds);
            let _ = ds.unstripe().len();
            stats.ops.push("score-u8");
        }
        2 | 3 => {
            let mut scanner = lightmotif::scan::Scanner::new(&pssm, &striped);
            scanner.threshold(arg as f32 / 4.0 - 30.0).block_size(1 + (arg2 as usize * 3) % 300);
            if arg2 % 5 == 2 {
                let mut n = 0;
                for h in &mut scanner {
                    n += 1;
                    let _ = (h.position(), h.score());
                    if n > len + 2 {
                        break;
                    }
                }
            } else {
                let _ = scanner.next();
                let _ = scanner.max();
            }
            stats.ops.push("scanner");
        }
        _ => {
            // a few Gibbs sampler steps on a small dataset cut from the sequence
            let w = 1 + (arg as usize) % 8;
            let pieces: Vec<StripedSequence<Dna, U32>> = idx
                .chunks(40)
                .filter(|c| c.len() > w)
                .take(6)
                .map(|c| {
                    let mut st: StripedSequence<Dna, U32> = EncodedSequence::<Dna>::encode(c).unwrap().to_striped();
                    st.configure_wrap(w);
                    st
                })
                .collect();
            if pieces.len() >= 2 {
                let data = lightmotif::sampler::SamplerData::new(&pieces);
                let sampler = lightmotif::sampler::Sampler::new(&data, w, StdRng::seed_from_u64(seed));
                for it in sampler.take(12) {
                    let _ = it.z;
                }
                stats.ops.push("sampler");
            }
            let rc = pssm.reverse_complement();
            let _ = rc.score(&striped).max();
        }
    }
    lightmotif::pli::verif_hooks::force_backend(None);
}

fn no_dna(_: &mut Unstructured, _: &mut Stats, _: &[u8]) {}

fuzz_target!(|data: &[u8]| {
    INIT.call_once(|| {
        // panics are not memory errors: stay quiet and let catch_unwind continue
        std::panic::set_hook(Box::new(|_| {}));
    });
    if data.is_empty() {
        return;
    }
    let mut u = Unstructured::new(&data[1..]);
    let mut stats = Stats::default();
    // first byte: below 192 DNA (2 in 3) or protein; from 192 on an alphabet of 9, 12 or 16 symbols declared by the
    // caller through the public traits (the generic code paths for sizes between the library's own 5 and 21)
    let alphabet = if data[0] >= 192 {
        match data[0] % 3 {
            0 => {
                run_ops::<userabc::Abc9>(&mut u, &mut stats, &no_dna);
                "user-9"
            }
            1 => {
                run_ops::<userabc::Abc12>(&mut u, &mut stats, &no_dna);
                "user-12"
            }
            _ => {
                run_ops::<userabc::Iupac>(&mut u, &mut stats, &no_dna);
                "user-16"
            }
        }
    } else if data[0] % 3 == 2 {
        run_ops::<Protein>(&mut u, &mut stats, &no_dna);
        "protein"
    } else {
        run_ops::<Dna>(&mut u, &mut stats, &dna_specific);
        "dna"
    };
    if let Ok(path) = std::env::var("LM_FUZZ_STATS") {
        if let Ok(mut f) = std::fs::OpenOptions::new().create(true).append(true).open(path) {
            let _ = writeln!(
                f,
                "{{\"alphabet\":\"{}\",\"ops\":[{}],\"max_len\":{},\"reused\":{},\"simd_on_reused\":{},\"panics\":{},\"bytes\":{}}}",
                alphabet,
                stats.ops.iter().map(|o| format!("\"{}\"", o)).collect::<Vec<_>>().join(","),
                stats.max_len,
                stats.reused,
                stats.simd_on_reused,
                stats.panics,
                data.len()
            );
        }
    }
    let _ = <Dna as Alphabet>::symbols()[0].as_index();
});
