//! C15 (byte level): the four motif-file readers must return from `Reader::new`
//! and from every `next()` without panicking, and a consumer that stops at the
//! first `Err` / `None` must terminate.
//!
//! Byte 0 selects format x alphabet, byte 1 the chunking; the rest is the file.
//! A panic aborts the process (libFuzzer's hook): the crashing input is the replay file.
#![no_main]

use std::io::{BufRead, BufReader, Cursor, Read};

use libfuzzer_sys::fuzz_target;
use lightmotif::abc::{Dna, Protein};

/// A `BufRead` handing out the data in chunks of a cyclic pattern of sizes.
struct Chunked<'a> {
    data: &'a [u8],
    pos: usize,
    end: usize,
    pattern: [usize; 3],
    turn: usize,
}

impl Read for Chunked<'_> {
    fn read(&mut self, buf: &mut [u8]) -> std::io::Result<usize> {
        let avail = self.fill_buf()?;
        let n = avail.len().min(buf.len());
        buf[..n].copy_from_slice(&avail[..n]);
        self.consume(n);
        Ok(n)
    }
}

impl BufRead for Chunked<'_> {
    fn fill_buf(&mut self) -> std::io::Result<&[u8]> {
        if self.pos >= self.end {
            let c = self.pattern[self.turn % 3].max(1);
            self.turn += 1;
            self.end = (self.pos + c).min(self.data.len());
        }
        Ok(&self.data[self.pos..self.end])
    }
    fn consume(&mut self, amt: usize) {
        self.pos = (self.pos + amt).min(self.end);
    }
}

fn open<'a>(data: &'a [u8], sel: u8) -> Box<dyn BufRead + 'a> {
    match sel % 6 {
        0 => Box::new(Cursor::new(data)),
        1 => Box::new(Chunked { data, pos: 0, end: 0, pattern: [1, 1, 1], turn: 0 }),
        2 => Box::new(Chunked { data, pos: 0, end: 0, pattern: [1, 7, 64], turn: 0 }),
        3 => Box::new(Chunked { data, pos: 0, end: 0, pattern: [(sel as usize / 6) + 2, 3, 1], turn: 0 }),
        4 => Box::new(BufReader::with_capacity(1, Cursor::new(data))),
        _ => Box::new(BufReader::with_capacity((sel as usize / 6) + 2, Cursor::new(data))),
    }
}

fn drive<R, I: Iterator<Item = Result<R, lightmotif_io::error::Error>>>(mut it: I, len: usize) {
    let cap = len + 2;
    let mut calls = 0usize;
    loop {
        calls += 1;
        if calls > cap {
            eprintln!("C15: reader yielded more than len+2 = {} records without reaching Err / None", cap);
            std::process::abort();
        }
        match it.next() {
            None => {
                // fused: a second call must not resurrect records
                if it.next().is_some() {
                    eprintln!("C15: next() after end of input returned an item");
                    std::process::abort();
                }
                break;
            }
            Some(Err(_)) => {
                // a caller that logs the error and asks again: every request returns, whatever it returns
                for _ in 0..3 {
                    if it.next().is_none() {
                        break;
                    }
                }
                break;
            }
            Some(Ok(_)) => {}
        }
    }
}

fuzz_target!(|data: &[u8]| {
    if data.len() < 2 {
        return;
    }
    let (sel, chunk, file) = (data[0], data[1], &data[2..]);
    let n = file.len();
    match sel % 7 {
        0 => drive(lightmotif_io::jaspar::read(open(file, chunk)), n),
        1 => drive(lightmotif_io::jaspar16::read::<_, Dna>(open(file, chunk)), n),
        2 => drive(lightmotif_io::jaspar16::read::<_, Protein>(open(file, chunk)), n),
        3 => drive(lightmotif_io::transfac::read::<_, Dna>(open(file, chunk)), n),
        4 => drive(lightmotif_io::transfac::read::<_, Protein>(open(file, chunk)), n),
        5 => drive(lightmotif_io::uniprobe::read::<_, Dna>(open(file, chunk)), n),
        _ => drive(lightmotif_io::uniprobe::read::<_, Protein>(open(file, chunk)), n),
    }
});
