//! Stub crate (see Cargo.toml): the verification code lives in harness/ and fuzz/.
