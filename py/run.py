"""Entry point run by pyharness:  run.py C17|C18 quick|thorough   |   run.py replay <file>"""
import sys

import common
import c17, c18

REGISTRY = {"C17": c17.SUBS, "C18": c18.SUBS}
ASSUME = {"C17": c17.ASSUMPTIONS, "C18": c18.ASSUMPTIONS}

if len(sys.argv) >= 3 and sys.argv[1] == "replay":
    sys.exit(common.replay_file(sys.argv[2], REGISTRY))
prop, tier = sys.argv[1], (sys.argv[2] if len(sys.argv) > 2 else "quick")
sys.exit(common.run_property(prop, REGISTRY[prop], tier, ASSUME[prop]))
