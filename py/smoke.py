import sys, lightmotif, hypothesis, numpy
print("ok", sys.version.split()[0], hypothesis.__version__, numpy.__version__, lightmotif.lib.AVX2_SUPPORTED)
m = lightmotif.create(["ACGT", "ACGA"])
print(list(m.counts[0]))
