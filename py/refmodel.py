"""Pure-Python reference model of the definitions the Python API must reproduce (C17/C18)."""
import math

import numpy as np

DNA = "ACTGN"
PROTEIN = "ACDEFGHIKLMNPQRSTVWYX"
COMPLEMENT = {"A": "T", "T": "A", "C": "G", "G": "C", "N": "N"}


def letters(protein):
    return PROTEIN if protein else DNA


def indices(seq, protein):
    ab = letters(protein)
    return [ab.index(c) for c in seq]


def counts_from_sites(sites, protein):
    ab = letters(protein)
    if not sites:
        return []
    width = len(sites[0])
    return [[sum(1 for s in sites if s[i] == c) for c in ab] for i in range(width)]


def uniform_background(protein):
    k = len(letters(protein))
    return [1.0 / (k - 1)] * (k - 1) + [0.0]


def frequencies(count_row, pseudo):
    tot = sum(c + p for c, p in zip(count_row, pseudo))
    return [(c + p) / tot for c, p in zip(count_row, pseudo)]


def weights(freq_row, bg):
    return [0.0 if b == 0.0 else f / b for f, b in zip(freq_row, bg)]


def log_scores(weight_row, base=2.0):
    return [(-math.inf if w == 0.0 else math.log(w) / math.log(base)) for w in weight_row]


def close(a, b, tol=1e-4):
    if a == b:
        return True
    if math.isinf(a) or math.isinf(b) or math.isnan(a) or math.isnan(b):
        return False
    return abs(a - b) <= tol * (1.0 + max(abs(a), abs(b)))


def rows_close(got, want, tol=1e-4):
    return len(got) == len(want) and all(close(float(g), float(w), tol) for g, w in zip(got, want))


def window_scores_f32(rows, idx):
    """Scores of every window: f32 left-to-right sums from 0.0 (what every backend computes).

    rows: M lists of K floats that are exactly f32 values; idx: symbol indices.
    """
    m, l = len(rows), len(idx)
    if m == 0 or l < m:
        return np.zeros(0, dtype=np.float32)
    n = l - m + 1
    table = np.array(rows, dtype=np.float32)
    ix = np.array(idx, dtype=np.int64)
    s = np.zeros(n, dtype=np.float32)
    with np.errstate(invalid="ignore"):
        for j in range(m):
            s = (s + table[j][ix[j:j + n]]).astype(np.float32)
    return s


def reverse_complement_rows(rows):
    """Mirror a DNA matrix given as rows of K=5 values in the order ACTGN."""
    comp = [DNA.index(COMPLEMENT[c]) for c in DNA]
    return [[row[comp[j]] for j in range(5)] for row in reversed(rows)]


def reverse_complement_seq(seq):
    return "".join(COMPLEMENT[c] for c in reversed(seq))


def exact_tail(rows, bg, x):
    """P(S >= x) by full enumeration (small matrices only); -inf cells / zero-probability symbols carry no mass."""
    dist = {0.0: 1.0}
    for row in rows:
        new = {}
        for s, p in dist.items():
            for v, q in zip(row, bg):
                if q > 0.0 and not math.isinf(v):
                    new[s + v] = new.get(s + v, 0.0) + p * q
        dist = new
    return sum(p for s, p in dist.items() if s >= x), dist


def striped_model(idx, wild, cols=32):
    """(rows R, matrix[row][col]) of a striped sequence without look-ahead rows."""
    l = len(idx)
    r = (l + cols - 1) // cols
    return r, [[(idx[c * r + i] if c * r + i < l else wild) for c in range(cols)] for i in range(r)]
