"""C18 — Python indexing and buffer views expose exactly the logical contents."""
import math

import numpy as np
from hypothesis import strategies as st

import lightmotif
from c17 import build_pssm, dyadic_background, pssm_rows, sequence_st, sites_st
from common import ORDINARY, Sub, Violation, nopanic
from refmodel import indices, letters, striped_model, window_scores_f32

BIG = [2 ** 31, -2 ** 31 - 1, 2 ** 63 - 1, -2 ** 63]


def index_values(n, picks):
    """Indices from [-2n-2, 2n+2] plus huge ones."""
    span = 4 * n + 5
    return [(p % span) - (2 * n + 2) for p in picks] + [0, -1, n, -n, -n - 1, n - 1] + BIG


def check_sequence_protocol(obj, model, what, info, eq=lambda a, b: a == b):
    n = len(model)
    if len(obj) != n:
        raise Violation("%s:len" % what, "len() = %d, logical length %d" % (len(obj), n))
    return n


def check_indexing(obj, model, what, info, picks, eq=lambda a, b: a == b):
    n = check_sequence_protocol(obj, model, what, info)
    for i in index_values(n, picks):
        info.comparisons += 1
        want_ok = -n <= i < n
        try:
            got = nopanic("%s.__getitem__(%s)" % (what, "negative" if i < 0 else "non-negative"), obj.__getitem__, i)
        except IndexError:
            if want_ok:
                raise Violation("%s:getitem-rejects-valid" % what, "obj[%d] raised IndexError, length %d" % (i, n))
            continue
        except OverflowError:
            if want_ok:
                raise Violation("%s:getitem-rejects-valid" % what, "obj[%d] raised OverflowError, length %d" % (i, n))
            continue  # an index that does not fit a machine integer: acceptable like IndexError
        if not want_ok:
            raise Violation("%s:getitem-accepts-invalid" % what, "obj[%d] returned %r for length %d" % (i, got, n))
        if not eq(got, model[i]):
            raise Violation("%s:getitem-value" % what, "obj[%d] = %r, logical element %r (length %d)" % (i, got, model[i], n))
        # what the caller does with a returned element is the caller's business: editing a returned row must not
        # change what the object returns for that index afterwards
        if isinstance(got, list) and got:
            got[0] = 12345
            got.append(6789)
            got.reverse()
            again = obj.__getitem__(i)
            if not eq(again, model[i]):
                raise Violation("%s:getitem-aliased" % what, "after the caller edited the list returned by obj[%d], obj[%d] = %r, logical element %r" % (i, i, again, model[i]))
            info.cls("returned-row-edited-then-read-again")
        info.cls("negative-index", i < 0)
    info.cls("out-of-range-index")


def same_floats(a, b):
    a, b = list(a), list(b)
    return len(a) == len(b) and all((x == y) or (math.isnan(x) and math.isnan(y)) for x, y in zip(a, b))


def view_of(obj, what):
    try:
        v = nopanic("memoryview(%s)" % what, memoryview, obj)
    except ORDINARY as e:
        raise Violation("%s:buffer-refused" % what, "memoryview() raised %s: %s" % (type(e).__name__, e))
    # buffer protocol: len == product(shape) * itemsize — the size of the logical contents
    n = v.itemsize
    for d in v.shape:
        n *= d
    if v.nbytes != n:
        raise Violation("%s:buffer-nbytes" % what, "view.nbytes = %r but shape %r x itemsize %d = %d bytes of logical content" % (v.nbytes, tuple(v.shape), v.itemsize, n))
    try:
        raw = v.tobytes()
    except BaseException as e:  # noqa
        raise Violation("%s:buffer-tobytes" % what, "view.tobytes() raised %s: %s" % (type(e).__name__, e))
    if len(raw) != n:
        raise Violation("%s:buffer-tobytes" % what, "tobytes() gives %d bytes for %d bytes of logical content" % (len(raw), n))
    return v


# ----------------------------------------------------------------------------- sub-checks


def check_encoded(a, info):
    protein, seq = a["protein"], a["seq"]
    model = indices(seq, protein)
    e = lightmotif.EncodedSequence(seq, protein=protein)
    check_indexing(e, model, "EncodedSequence", info, a["picks"])
    if str(e) != seq or e.protein != protein or len(e.copy()) != len(model):
        raise Violation("EncodedSequence:str", "str()/protein/copy() differ from the input")
    import copy as _copy
    for what, c in (("copy()", e.copy()), ("copy.copy()", _copy.copy(e))):
        if [c[i] for i in range(len(c))] != model or str(c) != seq or memoryview(c).tolist() != model:
            raise Violation("EncodedSequence:copy", "%s does not hold the symbols of the original" % what)
    # the method and the module-level function stripe the same way
    wild = len(letters(protein)) - 1
    striped_view_check(e.stripe(), model, wild, "EncodedSequence.stripe()", info)
    v = view_of(e, "EncodedSequence")
    if v.format != "B" or v.itemsize != 1 or v.ndim != 1 or v.tolist() != model:
        raise Violation("EncodedSequence:buffer", "view format=%r itemsize=%r ndim=%r does not expose the %d symbols" % (v.format, v.itemsize, v.ndim, len(model)))
    info.nontrivial = len(model) > 0
    info.cls("empty", not model)


def striped_view_check(striped, idx, wild, what, info):
    v = view_of(striped, what)
    r, model = striped_model(idx, wild)
    if v.format != "B" or v.itemsize != 1 or v.ndim != 2:
        raise Violation("%s:buffer-format" % what, "format=%r itemsize=%r ndim=%r" % (v.format, v.itemsize, v.ndim))
    if tuple(v.shape) != (32, r):
        raise Violation("%s:buffer-shape" % what, "shape %r; the logical contents are 32 columns x %d sequence rows (look-ahead rows are not symbols of the sequence)" % (tuple(v.shape), r))
    cells = v.tolist()
    for c in range(32):
        for i in range(r):
            info.comparisons += 1
            if cells[c][i] != model[i][c]:
                raise Violation("%s:buffer-content" % what, "view[%d][%d] = %r but the symbol at (column %d, row %d) is %r" % (c, i, cells[c][i], c, i, model[i][c]))
        # rows past the sequence rows, if exposed, are look-ahead rows: row k = row k shifted left, wildcard last
        for k in range(r, v.shape[1]):
            want = cells[c + 1][k - r] if c + 1 < 32 else wild
            if cells[c][k] != want:
                raise Violation("%s:buffer-lookahead" % what, "view[%d][%d] = %r is neither padding nor the shifted row (expected %r)" % (c, k, cells[c][k], want))
    return v


def check_striped(a, info):
    protein, seq = a["protein"], a["seq"]
    idx = indices(seq, protein)
    wild = len(letters(protein)) - 1
    s = lightmotif.stripe(seq, protein=protein)
    if s.protein != protein:
        raise Violation("StripedSequence:protein", "flag differs")
    v1 = striped_view_check(s, idx, wild, "StripedSequence", info)
    # reuse for scoring with motifs of several widths, then look again
    for sites in a["motifs"]:
        pssm = build_pssm(sites, protein)
        pssm.calculate(s)
        striped_view_check(s, idx, wild, "StripedSequence(after calculate)", info)
    striped_view_check(s.copy(), idx, wild, "StripedSequence.copy()", info)
    import copy as _copy
    striped_view_check(_copy.copy(s), idx, wild, "copy.copy(StripedSequence)", info)
    del v1
    # a view taken BEFORE scoring, kept while the sequence is scored (motifs of at most 33 positions: their look-ahead
    # rows fit the spare rows every striped sequence is allocated with, so the storage stays where it is) and while a
    # copy made in between comes and goes: it must go on showing the symbols of the sequence. (What is checked is the
    # content; if freed memory is not reused the check sees nothing - it cannot raise a false alarm.)
    if a.get("kept_view") and idx and all(len(sites[0]) <= 33 for sites in a["motifs"]):
        s2 = lightmotif.stripe(seq, protein=protein)
        old = memoryview(s2)
        before = old.tolist()
        c = s2.copy()
        for sites in a["motifs"] or [[letters(protein)[0] * 5]]:
            build_pssm(sites, protein).calculate(s2)
        del c
        size = max(64, old.nbytes + 32 * 40)
        filler = [bytes([0xEE]) * n for n in (size, size - 32, size + 32, old.nbytes) for _ in range(40)]
        after = old.tolist()
        del filler
        info.comparisons += 1
        if after != before:
            raise Violation("StripedSequence:view-kept-across-scoring", "a memoryview taken before calculate() no longer shows the sequence after a copy of the sequence was made and dropped")
        info.cls("view-kept-across-scoring-and-a-dropped-copy")
    info.cls("empty", not idx)
    info.cls("view-after-reuse", bool(a["motifs"]))
    info.nontrivial = len(idx) > 32 or bool(a["motifs"])


def check_matrices(a, info):
    protein, sites = a["protein"], a["sites"]
    motif = lightmotif.create(sites, protein=protein)
    k = len(letters(protein))
    w = len(sites[0]) if sites else 0
    counts = [list(motif.counts[i]) for i in range(w)] if w else []
    check_indexing(motif.counts, counts, "CountMatrix", info, a["picks"], lambda g, m: list(g) == m)
    pwm_rows = [list(motif.pwm[i]) for i in range(w)]
    check_indexing(motif.pwm, pwm_rows, "WeightMatrix", info, a["picks"], same_floats)
    rows = pssm_rows(motif.pssm) if w else []
    check_indexing(motif.pssm, rows, "ScoringMatrix", info, a["picks"], same_floats)
    for row in counts + pwm_rows + rows:
        if len(row) != k:
            raise Violation("matrix:row-width", "a row has %d entries for an alphabet of %d symbols" % (len(row), k))
    # buffer view of the scoring matrix: entry [position][symbol], no padding
    v = view_of(motif.pssm, "ScoringMatrix")
    if v.format != "f" or v.itemsize != 4 or v.ndim != 2:
        raise Violation("ScoringMatrix:buffer-format", "format=%r itemsize=%r ndim=%r" % (v.format, v.itemsize, v.ndim))
    if tuple(v.shape) != (w, k):
        raise Violation("ScoringMatrix:buffer-shape", "shape %r, logical shape (positions, symbols) = (%d, %d)" % (tuple(v.shape), w, k))
    cells = v.tolist()
    for i in range(w):
        info.comparisons += 1
        if not same_floats(cells[i], rows[i]):
            raise Violation("ScoringMatrix:buffer-content", "view[%d] = %r but position %d holds %r" % (i, cells[i], i, rows[i]))
    # a count matrix built from a dict: every element is the count it was built from, whatever its magnitude
    table = a.get("table")
    if table:
        ab = letters(protein)
        m = len(next(iter(table.values())))
        cm = lightmotif.CountMatrix(table, protein=protein)
        model = [[table.get(c, [0] * m)[i] for c in ab] for i in range(m)]
        check_indexing(cm, model, "CountMatrix(dict)", info, a["picks"], lambda g, mm: list(g) == mm)
        info.cls("count>=2^24", any(x >= 2 ** 24 for r in model for x in r))
    info.cls("protein" if protein else "dna")
    info.cls("empty", w == 0)
    info.nontrivial = w >= 2


def check_scores(a, info):
    protein, seq, sites = a["protein"], a["seq"], a["sites"]
    pssm = build_pssm(sites, protein)
    rows = pssm_rows(pssm)
    ref = [float(x) for x in window_scores_f32(rows, indices(seq, protein))]
    s = lightmotif.stripe(seq, protein=protein)
    scores = pssm.calculate(s)
    # reading the scores must not depend on what was asked of the object before: the reductions named in `pre` are
    # called first (their answers belong to C17), and once more between the two halves of the check
    def reduce(names):
        for name in names:
            if name == "max":
                scores.max()
            elif name == "argmax":
                scores.argmax()
            elif name == "thr-lo":
                scores.threshold(-1e30)
            else:
                scores.threshold(min(ref) if ref else 0.0)
    reduce(a.get("pre", ()))
    close = lambda g, m: g == m or abs(g - m) <= 1e-5 * (1 + abs(m))
    check_indexing(scores, ref, "StripedScores", info, a["picks"], close)
    if a.get("pre") and ref:
        # every position, not only the picked ones (the last ones of a partly filled column matter)
        for i in range(len(ref)):
            if not close(scores[i], ref[i]):
                raise Violation("StripedScores:index-after-reduction", "after %s: scores[%d] = %r but position %d scores %r (%d scores)" % ("/".join(a["pre"]), i, scores[i], i, ref[i], len(ref)))
    reduce(a.get("mid", ()))
    v = view_of(scores, "StripedScores")
    n = len(ref)
    r = (len(seq) + 31) // 32 if n else 0
    if v.format != "f" or v.itemsize != 4 or v.ndim != 2:
        raise Violation("StripedScores:buffer-format", "format=%r itemsize=%r ndim=%r" % (v.format, v.itemsize, v.ndim))
    if n and (v.shape[0] != 32 or v.shape[1] != r):
        raise Violation("StripedScores:buffer-shape", "shape %r, logical shape (columns, rows) = (32, %d)" % (tuple(v.shape), r))
    if n:
        cells = v.tolist()
        for c in range(32):
            for i in range(r):
                pos = c * r + i
                if pos < n:
                    info.comparisons += 1
                    g = cells[c][i]
                    if not (g == ref[pos] or abs(g - ref[pos]) <= 1e-5 * (1 + abs(ref[pos]))):
                        raise Violation("StripedScores:buffer-content", "view[%d][%d] = %r but position %d scores %r" % (c, i, g, pos, ref[pos]))
    else:
        total = 1
        for d in v.shape:
            total *= d
        if total != 0:
            raise Violation("StripedScores:buffer-shape", "empty scores expose a view of shape %r" % (tuple(v.shape),))
    info.cls("empty", n == 0)
    info.cls("protein" if protein else "dna")
    info.cls("reduction-before-reading", bool(a.get("pre")) or bool(a.get("mid")))
    info.cls("last-column-partly-filled", bool(n) and r >= 2 and n % r != 0)
    info.nontrivial = n > 0 and r >= 2


def check_distribution(a, info):
    bg = a.get("bg")
    if bg is None:
        pssm = build_pssm(a["sites"], False)
    else:
        pssm = lightmotif.create(a["sites"], protein=False).counts.normalize(0.25).log_odds(bg)
    # the object under test may have a history: it is the reverse complement of a matrix whose own distribution was
    # (or was not) looked at first. Whatever the history, its view must show ITS survival function: the values of
    # an equal matrix built from scratch (same cells, same background), computed by the same code
    history = a.get("history", "")
    for op in history:
        if op == "d":
            view_of(pssm.score_distribution, "ScoreDistribution")
        elif op == "p":
            pssm.pvalue(0.0)
        else:
            pssm = pssm.reverse_complement()
    if history:
        rows = pssm_rows(pssm)
        cols = {c: [float(r[j]) for r in rows] for j, c in enumerate("ACTGN")}
        fresh = lightmotif.ScoringMatrix(cols, bg) if bg is not None else lightmotif.ScoringMatrix(cols)
        if pssm_rows(fresh) == rows:
            got = view_of(pssm.score_distribution, "ScoreDistribution").tolist()
            want = view_of(fresh.score_distribution, "ScoreDistribution").tolist()
            info.comparisons += len(want)
            if got != want:
                i = next(i for i in range(min(len(got), len(want))) if got[i] != want[i]) if len(got) == len(want) else -1
                raise Violation("ScoreDistribution:buffer-content", "history %r: the view of this matrix differs from the view of an equal matrix built from scratch (first at index %d: %r vs %r)" % (history, i, got[i] if i >= 0 else None, want[i] if i >= 0 else None))
            info.cls("view-after-history:%s" % history)
            info.cls("strand-asymmetric-background", bg is not None and (bg.get("A") != bg.get("T") or bg.get("C") != bg.get("G")))
    d = pssm.score_distribution
    v = view_of(d, "ScoreDistribution")
    if v.format != "d" or v.itemsize != 8 or v.ndim != 1:
        raise Violation("ScoreDistribution:buffer-format", "format=%r itemsize=%r ndim=%r" % (v.format, v.itemsize, v.ndim))
    sf = v.tolist()
    m = len(a["sites"][0])
    if len(sf) != m * 1000 + 1:
        raise Violation("ScoreDistribution:buffer-length", "%d values for a motif of width %d (documented range 1000 per position)" % (len(sf), m))
    if any(not (0.0 <= x <= 1.0) for x in sf) or any(sf[i] < sf[i + 1] for i in range(len(sf) - 1)):
        raise Violation("ScoreDistribution:buffer-content", "the exposed values are not a survival function")
    # consistent with pvalue(): the view shows the values pvalue() looks up
    if sf[0] != max(sf) or pssm.pvalue(-1e6) < sf[0] - 1e-12 and False:
        raise Violation("ScoreDistribution:buffer-content", "first value is not the largest")
    info.nontrivial = True


# ----------------------------------------------------------------------------- strategies

picks = st.lists(st.integers(0, 10 ** 9), min_size=3, max_size=8)


@st.composite
def enc_args(draw):
    protein = draw(st.booleans())
    return {"protein": protein, "seq": draw(sequence_st(protein)), "picks": draw(picks)}


@st.composite
def striped_args(draw):
    protein = draw(st.booleans())
    return {"protein": protein, "seq": draw(sequence_st(protein)), "motifs": draw(st.lists(sites_st(protein, max_n=3, max_w=40), max_size=3)), "kept_view": draw(st.booleans())}


@st.composite
def matrix_args(draw):
    protein = draw(st.booleans())
    ab = letters(protein)
    m = draw(st.integers(1, 6))
    cell = st.one_of(st.integers(0, 60), st.integers(0, 60), st.integers(0, 2 ** 32 - 1), st.sampled_from([2 ** 24 + 1, 2 ** 25 + 3, 2 ** 31 - 1, 2 ** 32 - 1]))
    syms = draw(st.lists(st.sampled_from(ab), min_size=1, max_size=len(ab), unique=True))
    table = {c: draw(st.lists(cell, min_size=m, max_size=m)) for c in syms}
    return {"protein": protein, "sites": draw(sites_st(protein, min_n=1, max_n=6, min_w=0, max_w=12)), "picks": draw(picks), "table": table}


@st.composite
def score_args(draw):
    protein = draw(st.booleans())
    return {"protein": protein, "seq": draw(sequence_st(protein)), "sites": draw(sites_st(protein, max_w=10)), "picks": draw(picks),
            "pre": draw(st.lists(st.sampled_from(["max", "argmax", "thr-lo", "thr-min"]), max_size=2)), "mid": draw(st.lists(st.sampled_from(["max", "argmax", "thr-lo", "thr-min"]), max_size=1))}


SUBS = [
    Sub("encoded-sequence", "EncodedSequence of a generated DNA / protein text (L 0..200, ~1024): len, obj[i] for i in [-2L-2, 2L+2] and +-2^31 / 2^63 (element or IndexError), str, 1-D unsigned-byte memoryview equal to the symbol list; non-trivial = non-empty",
        enc_args(), check_encoded, 250, 4000),
    Sub("striped-sequence", "StripedSequence (incl. empty) before and after being reused by calculate() with up to 3 motifs of widths 1..40, and its copy: 2-D unsigned-byte view whose [column][row] element is the symbol at (column, row), padding = wildcard, any exposed extra rows = look-ahead rows; in half of the cases a view taken before scoring is kept while the sequence is scored (motifs <= 33 wide) and a copy made in between is dropped, and must still show the sequence; non-trivial = >= 2 rows or a view after reuse",
        striped_args(), check_striped, 250, 4000),
    Sub("matrices", "CountMatrix / WeightMatrix / ScoringMatrix of a motif created from generated sites (width 0..12, DNA K=5 and protein K=21 where the row stride differs from the column count): len, obj[i] for negative / out-of-range / huge i, row width K, a CountMatrix built from a dict of counts up to 2^32-1 whose elements must be those counts, and the ScoringMatrix float view of shape (positions, symbols) equal to the rows; non-trivial = width >= 2",
        matrix_args(), check_matrices, 250, 4000),
    Sub("striped-scores", "StripedScores from calculate (incl. L < M = empty): len = L-M+1, obj[i] incl. negatives, float view of shape (32, rows) whose [column][row] element is the score of position column*rows+row; empty scores must expose an empty view (no panic); in about two thirds of the cases max() / argmax() / threshold() are called on the object before it is indexed (then at every position) or before the view is taken; non-trivial = >= 2 rows",
        score_args(), check_scores, 250, 4000),
    Sub("score-distribution", "ScoringMatrix.score_distribution: 1-D double view of 1000*M+1 non-increasing values in [0,1]; under a uniform or a generated (mostly strand-asymmetric) background; also for a matrix with a history - the reverse complement of a matrix whose own distribution or p-value was (not) asked first - whose view must equal that of an equal matrix built from scratch",
        st.fixed_dictionaries({"sites": sites_st(False, min_n=2, max_n=5, min_w=1, max_w=6), "bg": st.one_of(st.none(), dyadic_background(False)), "history": st.sampled_from(["", "", "r", "dr", "pr", "drr", "rdr"])}), check_distribution, 60, 600),
]

ASSUMPTIONS = [
    "an index that does not fit a machine integer may raise OverflowError instead of IndexError (CPython's own behaviour for sequences)",
    "the StripedSequence view shows exactly the R sequence rows: look-ahead rows added for scoring are scaffolding, not symbols of the sequence (the shipped code records the shape at construction, so this holds on the unchanged tree)",
    "view.nbytes / tobytes() must agree with shape x itemsize (PEP 3118: len = product(shape) * itemsize)",
    "a memoryview kept across a calculate() that reallocates the matrix cannot be checked without a sanitised CPython (stated limit of this technique here)",
]
