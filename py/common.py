"""Hypothesis driver shared by C17 and C18 (runs inside pyharness' embedded CPython).

A sub-check = (name, rule, hypothesis strategy producing a JSON-able dict of arguments,
check function `f(args, info)` raising `Violation(sig, msg)`).  All randomness comes from
Hypothesis seeded with VERIF_SEED; the shrunk failing arguments are written as explicit
JSON (the replay file) and `replay` calls the same check function without Hypothesis.
"""
import hashlib, json, os, sys, time, traceback

from hypothesis import HealthCheck, given, seed, settings, Phase

VERIF = os.environ.get("VERIF_DIR", "/verif")
SEED = int(os.environ.get("VERIF_SEED", "1") or 1)
SCALE = float(os.environ.get("VERIF_SCALE", "1") or 1)

ORDINARY = (ValueError, TypeError, IndexError, OverflowError, OSError, RuntimeError, KeyError, BufferError)


class Violation(AssertionError):
    def __init__(self, sig, msg):
        super().__init__("%s :: %s" % (sig, msg))
        self.sig, self.msg = sig, msg


class Info:
    def __init__(self, excluded=()):
        self.nontrivial = False
        self.classes = set()
        self.comparisons = 0
        self.excluded = set(excluded)
        self.skipped = None

    def cls(self, name, cond=True):
        if cond:
            self.classes.add(name)


class Sub:
    def __init__(self, name, rule, strategy, func, quick, thorough):
        self.name, self.rule, self.strategy, self.func = name, rule, strategy, func
        self.cases = {"quick": quick, "thorough": thorough}


def is_panic(e):
    return type(e).__name__ == "PanicException"


def norm(s):
    import re
    return re.sub(r"\d+", "#", str(s))[:90]


# messages quote file contents and Python reprs: never let the console encoding turn a report into a crash
for _stream in (sys.stdout, sys.stderr):
    try:
        _stream.reconfigure(errors="backslashreplace")
    except Exception:
        pass


def nopanic(what, f, *a, **kw):
    """Call f; a Rust panic surfacing as PanicException becomes a violation naming the call site."""
    try:
        return f(*a, **kw)
    except BaseException as e:  # noqa
        if is_panic(e):
            raise Violation("%s:panic: %s" % (what, norm(e)), "%s raised pyo3 PanicException: %s" % (what, e))
        raise


def call_check(sub, args, info):
    """Run a check; a Rust panic crossing into Python or a non-ordinary exception is a violation."""
    try:
        sub.func(args, info)
    except Violation:
        raise
    except BaseException as e:  # noqa
        if is_panic(e):
            raise Violation("panic: " + norm(e), "pyo3 PanicException escaped into Python: %s" % e)
        if isinstance(e, (KeyboardInterrupt, SystemExit)):
            raise
        tb = traceback.format_exc(limit=6)
        raise Violation("unexpected-%s" % type(e).__name__, "unexpected %s: %s\n%s" % (type(e).__name__, e, tb))


def abbreviate(v, depth=0):
    if isinstance(v, list):
        if len(v) > 24:
            return [abbreviate(x, depth + 1) for x in v[:12]] + ["... %d more" % (len(v) - 12)]
        return [abbreviate(x, depth + 1) for x in v]
    if isinstance(v, dict):
        return {k: abbreviate(x, depth + 1) for k, x in v.items()}
    if isinstance(v, str) and len(v) > 160:
        return v[:120] + "... (%d chars)" % len(v)
    return v


def load_known(prop):
    try:
        d = json.load(open(os.path.join(VERIF, "known_findings.json")))
    except Exception:
        return []
    return [f for f in d.get("findings", []) if f.get("property") == prop and f.get("status") == "open"]


def run_property(prop, subs, tier, assumptions):
    t0 = time.time()
    known = load_known(prop)
    violations, known_lines, excluded = 0, [], set()
    by_name = {s.name: s for s in subs}

    def report(sub, v, args, path=None):
        nonlocal violations
        k = next((f for f in known if v.sig in f.get("signatures", [])), None)
        if k:
            line = "KNOWN-FINDING: property=%s %s [%s]" % (prop, k["what"], k["id"])
            if line not in known_lines:
                known_lines.append(line)
                print(line)
            excluded.update(k["signatures"])
            return
        if path is None:
            d = os.path.join(VERIF, "replays", prop)
            os.makedirs(d, exist_ok=True)
            body = json.dumps({"property": prop, "sub": sub.name, "signature": v.sig, "message": v.msg, "args": args}, indent=1, sort_keys=True)
            path = os.path.join(d, "%s-%s.json" % (sub.name, hashlib.sha1(body.encode()).hexdigest()[:16]))
            open(path, "w").write(body)
        print("[%s/%s] %s :: %s" % (prop, sub.name, v.sig, v.msg[:600]))
        print("VIOLATION property=%s replay=%s" % (prop, path))
        violations += 1

    # ---- replay tier -----------------------------------------------------------
    replayed = 0
    rdir = os.path.join(VERIF, "regress", prop)
    for f in sorted(os.listdir(rdir)) if os.path.isdir(rdir) else []:
        if not f.endswith(".json"):
            continue
        rf = json.load(open(os.path.join(rdir, f)))
        sub = by_name.get(rf.get("sub"))
        if sub is None:
            continue
        replayed += 1
        try:
            call_check(sub, rf["args"], Info())
        except Violation as v:
            report(sub, v, rf["args"], os.path.join(rdir, f))

    # ---- generated tier --------------------------------------------------------
    reports = []
    for sub in subs:
        n = max(1, int(sub.cases[tier] * SCALE))
        st = {"cases": 0, "nontrivial": 0, "keys": set(), "classes": {}, "samples": [], "comparisons": 0, "failed": False, "last": None, "skipped": {}}

        @seed(SEED)
        @settings(max_examples=n, database=None, deadline=None, derandomize=False, print_blob=False, report_multiple_bugs=False,
                  suppress_health_check=list(HealthCheck), phases=[Phase.generate, Phase.shrink])
        @given(sub.strategy)
        def test(args):
            st["last"] = args
            info = Info(excluded)
            try:
                call_check(sub, args, info)
            except Violation:
                st["failed"] = True
                raise
            if st["failed"]:
                return
            st["cases"] += 1
            st["comparisons"] += info.comparisons
            if info.skipped:
                st["skipped"][info.skipped] = st["skipped"].get(info.skipped, 0) + 1
                return
            for c in info.classes:
                st["classes"][c] = st["classes"].get(c, 0) + 1
            if info.nontrivial:
                st["nontrivial"] += 1
                key = hashlib.sha1(json.dumps(args, sort_keys=True, default=str).encode()).hexdigest()
                if key not in st["keys"]:
                    st["keys"].add(key)
                    if len(st["samples"]) < 3:
                        st["samples"].append(abbreviate(args))

        failures = []
        try:
            test()
        except Violation as v:
            failures.append(v.sig)
            report(sub, v, st["last"])
        except BaseException as e:  # Hypothesis' own errors (flaky, etc.)
            if isinstance(e, (KeyboardInterrupt, SystemExit)):
                raise
            v = Violation("harness-error:%s" % type(e).__name__, (str(e) + " | " + traceback.format_exc(limit=-10).replace("\n", " / "))[:1800])
            failures.append(v.sig)
            report(sub, v, st["last"])
        sys.stderr.write("[%s/%s] cases=%d nontrivial=%d distinct=%d skipped=%s failures=%d (%.1fs)\n" % (
            prop, sub.name, st["cases"], st["nontrivial"], len(st["keys"]), st["skipped"], len(failures), time.time() - t0))
        reports.append((sub, st, failures))

    # ---- evidence ----------------------------------------------------------------
    samples = []
    for sub, st, _ in reports:
        for s in st["samples"][:2]:
            samples.append({"sub": sub.name, "args": s})
    ev = {
        "property_id": prop, "tier": tier, "seed": SEED, "level": "exploration",
        "coverage": {
            "evaluations": sum(st["cases"] for _, st, _ in reports) + replayed,
            "distinct_nontrivial": sum(len(st["keys"]) for _, st, _ in reports),
            "rule": " || ".join("[%s] %s" % (sub.name, sub.rule) for sub, _, _ in reports),
            "samples": samples or [{"note": "no non-trivial example generated in this run"}],
            "regression_inputs_replayed": replayed,
            "sub_checks": [{"sub": sub.name, "examples": st["cases"], "oracle_comparisons": st["comparisons"], "nontrivial": st["nontrivial"],
                            "distinct_nontrivial": len(st["keys"]), "classes": st["classes"], "excluded_known_finding_cases": st["skipped"], "failures": fl}
                           for sub, st, fl in reports],
            "known_findings_reported": known_lines,
            "exhaustive": False,
            "engine": "Hypothesis %s inside an embedded CPython %s (pyharness), extension module built from the current /repo" % (__import__("hypothesis").__version__, sys.version.split()[0]),
        },
        "assumptions": assumptions,
        "wall_s": round(time.time() - t0, 3),
        "violations": violations,
    }
    os.makedirs(os.path.join(VERIF, "evidence"), exist_ok=True)
    path = os.path.join(VERIF, "evidence", prop + ".json")
    # second pass of the same property (the extension module compiled with debug assertions and arithmetic overflow
    # checks, as `cargo test` / `maturin develop` without --release build it): added to the first pass's evidence
    if os.environ.get("LMCHECK_SECOND_PASS"):
        try:
            first = json.load(open(path))
        except Exception:
            first = None
        if first is not None:
            first["coverage"]["evaluations"] = first["coverage"].get("evaluations", 0) + ev["coverage"]["evaluations"]
            first["coverage"]["checked_build_pass"] = {
                "what": "the same sub-checks (a quarter of the examples, same seed) against the extension module compiled with debug assertions and arithmetic overflow checks",
                "evaluations": ev["coverage"]["evaluations"], "distinct_nontrivial": ev["coverage"]["distinct_nontrivial"],
                "sub_checks": ev["coverage"]["sub_checks"], "wall_s": ev["wall_s"],
            }
            first["coverage"]["rule"] = first["coverage"]["rule"] + " || [checked-build pass] the same sub-checks at a quarter of the examples with debug assertions and overflow checks compiled into the extension module"
            first["violations"] = first.get("violations", 0) + violations
            first["wall_s"] = round(first.get("wall_s", 0) + ev["wall_s"], 3)
            ev = first
    json.dump(ev, open(path, "w"), indent=1, default=str)
    return 1 if violations else 0


def replay_file(path, registry):
    rf = json.load(open(path))
    subs = registry.get(rf["property"])
    if subs is None:
        print("unknown property", rf["property"])
        return 2
    sub = next((s for s in subs if s.name == rf["sub"]), None)
    if sub is None:
        print("unknown sub-check", rf["sub"])
        return 2
    try:
        call_check(sub, rf["args"], Info())
    except Violation as v:
        print("%s :: %s" % (v.sig, v.msg[:800]))
        print("VIOLATION property=%s replay=%s" % (rf["property"], path))
        return 1
    print("PASS property=%s sub=%s" % (rf["property"], rf["sub"]))
    return 0
