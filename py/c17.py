"""C17 — Python results equal the results of the core library on the same data."""
import io, math, os, tempfile

import numpy as np
from hypothesis import strategies as st

import lightmotif
from common import ORDINARY, Sub, Violation
from refmodel import (DNA, PROTEIN, close, counts_from_sites, exact_tail, frequencies, indices, letters, log_scores,
                      reverse_complement_rows, reverse_complement_seq, rows_close, uniform_background, weights, window_scores_f32)

# ----------------------------------------------------------------------------- strategies


def lengths():
    return st.one_of(st.integers(0, 40), st.integers(0, 200), st.integers(28, 36), st.integers(60, 68), st.sampled_from([1023, 1024, 1025, 1000, 993]))


@st.composite
def sites_st(draw, protein, min_n=1, max_n=8, min_w=1, max_w=12):
    w = draw(st.integers(min_w, max_w))
    n = draw(st.integers(min_n, max_n))
    ab = letters(protein)[:-1]
    return [draw(st.text(alphabet=st.sampled_from(ab), min_size=w, max_size=w)) for _ in range(n)]


@st.composite
def sequence_st(draw, protein):
    n = draw(lengths())
    ab = letters(protein)
    mode = draw(st.integers(0, 3))
    if mode == 0 or n <= 64:
        return draw(st.text(alphabet=st.sampled_from(ab), min_size=n, max_size=n))
    # long sequences: repeat a short unit (cheap to generate, repeat-rich)
    unit = draw(st.text(alphabet=st.sampled_from(ab[:-1]), min_size=1, max_size=7))
    return (unit * (n // len(unit) + 1))[:n]


def dyadic_background(protein):
    k = len(letters(protein))

    @st.composite
    def bg(draw):
        w = [draw(st.integers(1, 20)) for _ in range(k - 1)]
        # parts of 64 with every real symbol >= 1
        spare = 64 - (k - 1)
        tot = sum(w)
        parts = [1 + x * spare // tot for x in w]
        i = 0
        while sum(parts) < 64:
            parts[i % (k - 1)] += 1
            i += 1
        d = {c: p / 64.0 for c, p in zip(letters(protein)[:-1], parts)}
        if draw(st.booleans()):
            d[letters(protein)[-1]] = 0.0
        return d

    return bg()


# exact frequencies below this are in (or within a few binades of) the subnormal range of f32
F32_UNDERFLOW = 2.0 ** -120


def pseudo_st(protein):
    ab = letters(protein)
    return st.one_of(
        st.none(),
        st.sampled_from([0.0, 0.1, 0.25, 1.0]),
        st.floats(0.0, 3.0, width=32, allow_nan=False),
        st.dictionaries(st.sampled_from(ab), st.floats(0.0, 2.0, width=32, allow_nan=False), max_size=len(ab)),
    )


def pseudo_vector(pseudo, protein):
    ab = letters(protein)
    if pseudo is None:
        return [0.0] * len(ab)
    if isinstance(pseudo, dict):
        return [float(np.float32(pseudo.get(c, 0.0))) for c in ab]
    return [float(np.float32(pseudo))] * (len(ab) - 1) + [0.0]


def build_pssm(sites, protein, pseudo=0.25):
    motif = lightmotif.create(sites, protein=protein)
    return motif.counts.normalize(pseudo).log_odds()


@st.composite
def declared_st(draw):
    """Scores written down directly for `lightmotif.ScoringMatrix(values)`: the four nucleotide columns, and in half
    of the cases a column for N as well (any value, so a window with N may score above every N-free window)."""
    w = draw(st.integers(1, 10))
    cell = st.one_of(st.integers(-8, 8).map(float), st.integers(-32, 32).map(lambda x: x / 4.0))
    cols = {c: draw(st.lists(cell, min_size=w, max_size=w)) for c in "ACTG"}
    if draw(st.booleans()):
        cols["N"] = draw(st.lists(cell, min_size=w, max_size=w))
    return cols


def make_pssm(a, protein=False, wildcard=True):
    if a.get("declared") and not protein:
        cols = dict(a["declared"])
        if not wildcard:
            # the cells of a StripedScores past the last position are only specified (-inf) when the wildcard
            # column is -inf (C07); max / argmax / threshold over the whole object are compared under that condition
            cols["N"] = [float("-inf")] * len(cols["A"])
        return lightmotif.ScoringMatrix(cols)
    return build_pssm(a["sites"], protein, a["pseudo"])


def pssm_rows(pssm):
    return [[float(x) for x in pssm[i]] for i in range(len(pssm))]


# ----------------------------------------------------------------------------- create


def check_create(a, info):
    protein, sites, name = a["protein"], a["sites"], a["name"]
    ab = letters(protein)
    valid = all(all(c in ab for c in s) for s in sites)
    equal = len({len(s) for s in sites}) <= 1
    info.cls("protein" if protein else "dna")
    info.cls("invalid-symbol(rejection)", not valid)
    info.cls("unequal-lengths(rejection)", valid and not equal)
    # `sequences` is documented as an iterable of str: hand it over as a list, a tuple, or something that can be
    # walked only once (a generator, an iterator, a map object)
    container = a.get("container", "list")
    given = {"list": lambda: list(sites), "tuple": lambda: tuple(sites), "generator": lambda: (s for s in sites), "iter": lambda: iter(list(sites)),
             "map": lambda: map(str, sites)}[container]()
    info.cls("sequences-given-as:%s" % container)
    try:
        motif = lightmotif.create(given, protein=protein, name=name)
    except ORDINARY as e:
        if valid and equal:
            raise Violation("create:rejects-valid", "create(%r) raised %s: %s" % (sites, type(e).__name__, e))
        info.nontrivial = True
        return
    if not (valid and equal):
        raise Violation("create:accepts-invalid", "create(%r, protein=%r) did not raise" % (sites, protein))
    want = counts_from_sites(sites, protein)
    if len(motif.counts) != len(want) or len(motif.pwm) != len(want) or len(motif.pssm) != len(want):
        raise Violation("create:length", "%d count rows for sites of width %d" % (len(motif.counts), len(want)))
    if motif.name != name or motif.protein != protein or motif.counts.protein != protein or motif.pssm.protein != protein:
        raise Violation("create:metadata", "name/protein flags differ from the arguments")
    bg = uniform_background(protein)
    for i, row in enumerate(want):
        info.comparisons += 3
        if list(motif.counts[i]) != row:
            raise Violation("create:counts", "position %d: counts %r expected %r" % (i, list(motif.counts[i]), row))
        f = frequencies(row, [0.0] * len(row))
        w = weights(f, bg)
        if not rows_close(list(motif.pwm[i]), w):
            raise Violation("create:weights", "position %d: weights %r expected freq/bg = %r" % (i, list(motif.pwm[i]), w))
        if not rows_close(list(motif.pssm[i]), log_scores(w)):
            raise Violation("create:scores", "position %d: scores %r expected log2(weights) = %r" % (i, list(motif.pssm[i]), log_scores(w)))
    info.nontrivial = len(sites) >= 2 and len(want) >= 2


@st.composite
def create_args(draw):
    protein = draw(st.booleans())
    sites = draw(sites_st(protein, min_n=0, max_n=10, min_w=0, max_w=15))
    kind = draw(st.integers(0, 9))
    if kind == 0 and sites:
        i = draw(st.integers(0, len(sites) - 1))
        sites[i] = sites[i] + draw(st.sampled_from(["A", "AC"]))
    elif kind == 1 and sites and sites[0]:
        i = draw(st.integers(0, len(sites) - 1))
        j = draw(st.integers(0, len(sites[i]) - 1))
        bad = draw(st.sampled_from(["a", "z", "-", "U" if not protein else "B", " ", "é", "0"]))
        sites[i] = sites[i][:j] + bad + sites[i][j + 1:]
    return {"protein": protein, "sites": sites, "name": draw(st.one_of(st.none(), st.text(max_size=8))),
            "container": draw(st.sampled_from(["list", "list", "tuple", "generator", "iter", "map"]))}


# ----------------------------------------------------------------------------- normalize / log_odds


def check_log_odds(a, info):
    protein, counts, pseudo, bg, base = a["protein"], a["counts"], a["pseudo"], a["bg"], a["base"]
    ab = letters(protein)
    k = len(ab)
    info.cls("protein" if protein else "dna")
    cm = lightmotif.CountMatrix(counts, protein=protein)
    m = len(next(iter(counts.values())))
    if len(cm) != m:
        raise Violation("CountMatrix:length", "len = %d expected %d" % (len(cm), m))
    rows = [[counts.get(c, [0] * m)[i] for c in ab] for i in range(m)]
    for i in range(m):
        if list(cm[i]) != rows[i]:
            raise Violation("CountMatrix:row", "row %d = %r expected %r" % (i, list(cm[i]), rows[i]))
    pv = pseudo_vector(pseudo, protein)
    if any(sum(r) + sum(pv) <= 0 for r in rows):
        info.skipped = "zero-row"
        return
    pwm = cm.normalize(pseudo)
    ubg = uniform_background(protein)
    freqs = [frequencies(r, pv) for r in rows]
    for i in range(m):
        info.comparisons += 1
        if not rows_close(list(pwm[i]), weights(freqs[i], ubg)):
            raise Violation("normalize:weights", "row %d with pseudocount %r: %r expected %r" % (i, pseudo, list(pwm[i]), weights(freqs[i], ubg)))
    # log-odds under a given background and base
    pssm = pwm.log_odds(bg, base=base) if bg is not None else pwm.log_odds(base=base)
    bgv = ubg if bg is None else [float(bg.get(c, 0.0)) for c in ab]
    for i in range(m):
        want = []
        for j in range(k):
            # the weights were made under the uniform background: a symbol of zero uniform frequency (the
            # wildcard) has weight 0 whatever the new background; a zero new frequency gives weight 0 too
            if ubg[j] == 0.0 or bgv[j] == 0.0 or freqs[i][j] == 0.0:
                want.append(-math.inf)
            else:
                want.append(math.log(freqs[i][j] / bgv[j]) / math.log(base))
        info.comparisons += 1
        got_row = [float(x) for x in pssm[i]]
        ok = len(got_row) == k
        for j in range(k if ok else 0):
            if 0.0 < freqs[i][j] < F32_UNDERFLOW and ubg[j] != 0.0 and bgv[j] != 0.0:
                # the exact frequency is not representable as a normal f32 (a subnormal pseudocount against
                # real counts): the f32 frequency is subnormal or zero, so any score at or below the score of
                # the smallest normal frequency - including -inf - is what f32 arithmetic gives
                info.cls("frequency-underflows-f32")
                upper = math.log(F32_UNDERFLOW / bgv[j]) / math.log(base)
                ok = ok and (got_row[j] == -math.inf or got_row[j] <= upper + 2e-4 * (1.0 + abs(upper)))
            else:
                ok = ok and close(got_row[j], want[j], 2e-4)
        if not ok:
            raise Violation("log_odds:scores", "row %d, background %r, base %r: %r expected log_base(freq/background) = %r" % (i, bg, base, list(pssm[i]), want))
    info.cls("background-given", bg is not None)
    info.cls("dict-pseudocount", isinstance(pseudo, dict))
    info.cls("base!=2", base != 2.0)
    info.nontrivial = m >= 2 and (bg is not None or isinstance(pseudo, dict) or base != 2.0)


@st.composite
def log_odds_args(draw):
    protein = draw(st.booleans())
    ab = letters(protein)
    m = draw(st.integers(1, 12))
    syms = draw(st.lists(st.sampled_from(ab[:-1]), min_size=1, max_size=len(ab) - 1, unique=True))
    cell = st.one_of(st.integers(0, 60), st.integers(0, 60), st.integers(0, 60), st.integers(0, 2 ** 31))
    counts = {c: draw(st.lists(cell, min_size=m, max_size=m)) for c in syms}
    return {
        "protein": protein,
        "counts": counts,
        "pseudo": draw(pseudo_st(protein)),
        "bg": draw(st.one_of(st.none(), dyadic_background(protein))),
        "base": draw(st.sampled_from([2.0, 2.0, 10.0, math.e, 3.5])),
    }


def check_bad_arguments(a, info):
    """Invalid arguments and alphabet mismatches raise ordinary exceptions (never PanicException, never succeed)."""
    kind = a["kind"]
    info.cls(kind)
    info.nontrivial = True
    dna = build_pssm(["ACGT", "ACGA"], False)
    prot = build_pssm(["ACDE", "ACDF"], True)
    cm = lightmotif.CountMatrix({"A": [1, 2], "C": [3, 0]})
    pwm = cm.normalize(0.1)

    def must_raise(f, what):
        try:
            f()
        except ORDINARY:
            return
        raise Violation("bad-argument:accepted:" + kind, "%s did not raise" % what)

    if kind == "alphabet-mismatch-calculate":
        must_raise(lambda: dna.calculate(lightmotif.stripe(a["text"] or "ACDE", protein=True)), "DNA pssm.calculate(protein sequence)")
        must_raise(lambda: prot.calculate(lightmotif.stripe("ACGT")), "protein pssm.calculate(DNA sequence)")
    elif kind == "alphabet-mismatch-scan":
        must_raise(lambda: list(lightmotif.scan(dna, lightmotif.stripe("ACDE", protein=True))), "scan(DNA pssm, protein sequence)")
        must_raise(lambda: list(lightmotif.scan(prot, lightmotif.stripe("ACDE", protein=True))), "scan on proteins")
    elif kind == "invalid-sequence":
        must_raise(lambda: lightmotif.stripe(a["text"] + "z"), "stripe of an invalid sequence")
        must_raise(lambda: lightmotif.EncodedSequence(a["text"] + "é"), "EncodedSequence of an invalid sequence")
    elif kind == "bad-background":
        must_raise(lambda: pwm.log_odds({"A": 0.5, "C": 0.25, "T": 0.125, "G": 0.0625}), "log_odds with a background not summing to one")
        must_raise(lambda: pwm.log_odds({"A": 1.5, "C": -0.5}), "log_odds with out-of-range frequencies")
        must_raise(lambda: pwm.log_odds({"Z": 1.0}), "log_odds with an unknown symbol")
        must_raise(lambda: pwm.log_odds("ACGT"), "log_odds with a string background")
        must_raise(lambda: lightmotif.ScoringMatrix({"A": [1.0]}, {"A": 2.0}), "ScoringMatrix with an invalid background")
    elif kind == "bad-pseudocount":
        must_raise(lambda: cm.normalize("x"), "normalize with a string pseudocount")
        must_raise(lambda: cm.normalize({"Z": 1.0}), "normalize with an unknown symbol")
        must_raise(lambda: cm.normalize({"AC": 1.0}), "normalize with a two-letter key")
    elif kind == "bad-matrix":
        must_raise(lambda: lightmotif.CountMatrix({"A": [1, 2], "C": [1]}), "CountMatrix with ragged columns")
        must_raise(lambda: lightmotif.CountMatrix({}), "CountMatrix without columns")
        must_raise(lambda: lightmotif.CountMatrix({"A": [-1]}), "CountMatrix with a negative count")
        # a count that does not fit the matrix's 32-bit cells must be refused, not stored as another number
        for big in (2 ** 32, 2 ** 32 + 5, 2 ** 40, 2 ** 63, 10 ** 30):
            must_raise(lambda: lightmotif.CountMatrix({"A": [1, big], "C": [0, 0]}), "CountMatrix with a count of %d" % big)
        must_raise(lambda: lightmotif.CountMatrix({"A": ["3"]}), "CountMatrix with a string count")
        must_raise(lambda: lightmotif.CountMatrix({"A": [1.5]}), "CountMatrix with a fractional count")
        must_raise(lambda: lightmotif.ScoringMatrix({"A": [1.0, 2.0], "C": [1.0]}), "ScoringMatrix with ragged columns")
        must_raise(lambda: lightmotif.ScoringMatrix({}), "ScoringMatrix without columns")
    elif kind == "bad-method":
        must_raise(lambda: dna.pvalue(1.0, method=a["text"] + "?"), "pvalue with an unknown method")
        must_raise(lambda: dna.score(0.5, method=a["text"] + "?"), "score with an unknown method")
        must_raise(lambda: prot.reverse_complement(), "reverse_complement of a protein matrix")
    elif kind == "bad-load":
        must_raise(lambda: list(lightmotif.load(os.path.join(tempfile.gettempdir(), "no-such-file-" + str(len(a["text"]))), format="jaspar")), "load of a missing file")
        must_raise(lambda: list(lightmotif.load(io.BytesIO(b""), format="nope")), "load with an unknown format")
        must_raise(lambda: list(lightmotif.load(io.BytesIO(b">x\n1 2\n1\n1 2\n1 2\n"), format="jaspar")), "load of a ragged JASPAR record")
        must_raise(lambda: list(lightmotif.load(io.BytesIO(b"ID x\nP0 A C\n"), format="transfac")), "load of a truncated TRANSFAC record")
        must_raise(lambda: list(lightmotif.load(io.BytesIO(b"\xff\xfe>"), format="jaspar16")), "load of invalid UTF-8")
        must_raise(lambda: list(lightmotif.load(io.BytesIO(b">x\nA [1 2]\n"), format="jaspar", protein=True)), "load of protein JASPAR")


# ----------------------------------------------------------------------------- calculate / StripedScores / scan / reuse


def reference(pssm, seq, protein):
    rows = pssm_rows(pssm)
    return rows, window_scores_f32(rows, indices(seq, protein))


def check_scores(scores, ref, what):
    n = len(ref)
    if len(scores) != n:
        raise Violation("calculate:length", "%s: len(scores) = %d expected L-M+1 = %d" % (what, len(scores), n))
    for i in range(n):
        got = scores[i]
        if not (got == float(ref[i]) or close(got, float(ref[i]), 1e-5)):
            raise Violation("calculate:value", "%s: score[%d] = %r expected %r" % (what, i, got, float(ref[i])))
    if n == 0:
        if scores.max() is not None or scores.argmax() is not None:
            raise Violation("scores:empty", "%s: max/argmax of empty scores are not None" % what)
        return
    best = float(ref.max())
    mx = scores.max()
    if mx != best:
        raise Violation("scores:max", "%s: max() = %r but the best position scores %r" % (what, mx, best))
    am = scores.argmax()
    if math.isfinite(best) and not (am is not None and 0 <= am < n and float(ref[am]) == best):
        raise Violation("scores:argmax", "%s: argmax() = %r does not designate a position scoring %r" % (what, am, best))


def check_calculate(a, info):
    # the dispatcher arm used by encode / stripe / calculate / max / argmax / threshold is forced
    # through the verif-hooks feature (None = the host's own choice)
    arm = a.get("arm")
    lightmotif.lib.force_backend(arm)
    try:
        _check_calculate(a, info)
    finally:
        lightmotif.lib.force_backend(None)
    info.cls("arm:%s" % (arm or "host"))


def _check_calculate(a, info):
    protein, seq, sites, thr_pick = a["protein"], a["seq"], a["sites"], a["thr"]
    info.cls("protein" if protein else "dna")
    pssm = make_pssm(a, protein, wildcard=False)
    info.cls("scores-declared-directly", bool(a.get("declared")) and not protein)
    rows, ref = reference(pssm, seq, protein)
    striped = lightmotif.stripe(seq, protein=protein)
    scores = pssm.calculate(striped)
    info.comparisons += len(ref) + 3
    check_scores(scores, ref, "L=%d M=%d" % (len(seq), len(rows)))
    n = len(ref)
    if n:
        finite = [float(x) for x in ref if math.isfinite(x)]
        t = (finite[thr_pick % len(finite)] if finite else 0.0) + a["delta"]
        got = sorted(scores.threshold(t))
        want = [i for i in range(n) if float(ref[i]) >= np.float32(t)]
        if got != want:
            raise Violation("scores:threshold", "threshold(%r) = %r... expected %r... (%d vs %d positions)" % (t, got[:5], want[:5], len(got), len(want)))
    info.cls("L<M", n == 0)
    info.cls("L>=1024", len(seq) >= 1024)
    info.nontrivial = len(seq) > 32 and len(rows) >= 2 and n > 0


@st.composite
def calculate_args(draw):
    protein = draw(st.booleans())
    return {
        "protein": protein,
        "seq": draw(sequence_st(protein)),
        "sites": draw(sites_st(protein)),
        "pseudo": draw(st.sampled_from([0.1, 0.25, 1.0])),
        "thr": draw(st.integers(0, 10 ** 6)),
        "delta": draw(st.sampled_from([0.0, 0.0, 1e-3, -1e-3, 1.0, -5.0])),
        "arm": draw(st.sampled_from([None, None, "generic", "sse2", "avx2"])),
        "declared": draw(st.one_of(st.none(), st.none(), st.none(), declared_st())),
    }


def expected_hits(ref, t):
    t32 = np.float32(t)
    return sorted((i, float(ref[i])) for i in range(len(ref)) if ref[i] >= t32)


def check_scan(a, info):
    seq, sites, block = a["seq"], a["sites"], a["block"]
    pssm = make_pssm(a)
    info.cls("scores-declared-directly", bool(a.get("declared")))
    if a.get("embed") is not None:
        # plant the best-scoring word over the WHOLE alphabet (wildcard included) somewhere in the sequence
        rws = pssm_rows(pssm)
        word = "".join(DNA[max(range(len(r)), key=lambda j: r[j])] for r in rws)
        at = a["embed"] % (len(seq) + 1)
        seq = seq[:at] + word + seq[at:]
        info.cls("best-word-over-the-whole-alphabet-planted")
    rows, ref = reference(pssm, seq, False)
    nfree = window_scores_f32(rows, indices("".join(c for c in seq if c != "N"), False))
    info.cls("some-window-with-N-beats-every-N-free-window", len(ref) > 0 and len(nfree) > 0 and float(ref.max()) > float(nfree.max()))
    finite = [float(x) for x in ref if math.isfinite(x)]
    t = {"score": (finite[a["thr"] % len(finite)] if finite else 0.0) + a["delta"], "top": (max(finite) if finite else 0.0) + min(a["delta"], 0.0), "low": -1e6, "default": None, "high": 1e6}[a["thr_kind"]]
    striped = lightmotif.stripe(seq)
    kwargs = {}
    if t is not None:
        kwargs["threshold"] = t
    if block is not None:
        kwargs["block_size"] = block
    hits = sorted((h.position, h.score) for h in lightmotif.scan(pssm, striped, **kwargs))
    want = expected_hits(ref, 0.0 if t is None else t)
    info.comparisons += len(want) + len(hits)
    if hits != want:
        missing = [w for w in want if w not in hits][:3]
        extra = [h for h in hits if h not in want][:3]
        raise Violation("scan:hits", "L=%d M=%d threshold=%r block_size=%r: %d hits, expected %d; missing %r unexpected %r" % (len(seq), len(rows), t, block, len(hits), len(want), missing, extra))
    info.cls("threshold<=min", a["thr_kind"] == "low")
    info.cls("L<M", len(ref) == 0)
    info.nontrivial = 0 < len(want) < len(ref)


@st.composite
def scan_args(draw):
    return {
        "seq": draw(sequence_st(False)),
        "sites": draw(sites_st(False)),
        "pseudo": draw(st.sampled_from([0.1, 0.25, 1.0])),
        "thr_kind": draw(st.sampled_from(["score", "score", "score", "top", "top", "low", "default", "high"])),
        "thr": draw(st.integers(0, 10 ** 6)),
        "delta": draw(st.sampled_from([0.0, 0.0, 1e-3, -1e-3])),
        "block": draw(st.one_of(st.none(), st.integers(1, 8), st.integers(1, 300))),
        "declared": draw(st.one_of(st.none(), st.none(), declared_st())),
        "embed": draw(st.one_of(st.none(), st.integers(0, 10 ** 6))),
    }


def check_reuse(a, info):
    """One striped sequence object reused with motifs of different widths, in a generated order."""
    protein, seq = a["protein"], a["seq"]
    striped = lightmotif.stripe(seq, protein=protein)
    motifs = [build_pssm(s, protein) for s in a["motifs"]]
    refs = [reference(p, seq, protein) for p in motifs]
    for step, (mi, kind) in enumerate(a["ops"]):
        mi %= len(motifs)
        pssm, (rows, ref) = motifs[mi], refs[mi]
        what = "op #%d (%s, motif width %d) on a reused StripedSequence of length %d" % (step, kind, len(rows), len(seq))
        info.comparisons += len(ref)
        if kind == "calculate" or protein:
            check_scores(pssm.calculate(striped), ref, what)
        elif kind == "calculate-rc":
            rc = pssm.reverse_complement()
            check_scores(rc.calculate(striped), window_scores_f32(pssm_rows(rc), indices(seq, False)), what)
        elif kind == "scan-rc":
            # the mirror image of a motif object that may have been scanned / scored with before
            rc = pssm.reverse_complement()
            rref = window_scores_f32(pssm_rows(rc), indices(seq, False))
            t = float(np.median(rref)) if len(rref) and math.isfinite(float(np.median(rref))) else 0.0
            hits = sorted((h.position, h.score) for h in lightmotif.scan(rc, striped, threshold=t, block_size=a["block"]))
            if hits != expected_hits(rref, t):
                raise Violation("reuse:scan-rc", "%s: %d hits, expected %d" % (what, len(hits), len(expected_hits(rref, t))))
        else:
            t = float(np.median(ref)) if len(ref) and math.isfinite(float(np.median(ref))) else 0.0
            hits = sorted((h.position, h.score) for h in lightmotif.scan(pssm, striped, threshold=t, block_size=a["block"]))
            if hits != expected_hits(ref, t):
                raise Violation("reuse:scan", "%s: %d hits, expected %d" % (what, len(hits), len(expected_hits(ref, t))))
    widths = {len(r[0]) for r in refs}
    info.cls("protein" if protein else "dna")
    info.nontrivial = len(a["ops"]) >= 2 and len(widths) >= 2 and len(seq) > 32


@st.composite
def reuse_args(draw):
    protein = draw(st.booleans())
    return {
        "protein": protein,
        "seq": draw(sequence_st(protein)),
        "motifs": draw(st.lists(sites_st(protein, max_n=4, max_w=30), min_size=1, max_size=4)),
        "ops": draw(st.lists(st.tuples(st.integers(0, 3), st.sampled_from(["calculate", "scan", "calculate-rc", "scan-rc"])), min_size=1, max_size=8)),
        "block": draw(st.sampled_from([1, 3, 256])),
    }


# ----------------------------------------------------------------------------- p-values


def pvalue_queries(pssm, bg, a, info, what):
    """pvalue / score (method 'meme') of one matrix object against the enumeration of all words."""
    rows = pssm_rows(pssm)
    m = len(rows)
    finite = [x for r in rows for x in r if math.isfinite(x)]
    large, small = max(finite), min(finite)
    if small == large:
        small = large - 1.0
    scale = math.floor(1000.0 / (large - math.floor(small)))
    d = (m / 2.0 + 1.0) / scale
    _, dist = exact_tail(rows, bg, 0.0)
    attain = sorted(dist)
    queries = [attain[i % len(attain)] for i in a["picks"]] + [attain[0] - 1 - d, attain[-1] + 1 + d] + a["scores"]
    prev = None
    for s in sorted(queries):
        p = pssm.pvalue(float(np.float32(s)))
        s32 = float(np.float32(s))
        lo = sum(q for v, q in dist.items() if v >= s32 + d + 1e-9)
        hi = sum(q for v, q in dist.items() if v >= s32 - d - 1e-9)
        info.comparisons += 1
        if not (0.0 <= p <= 1.0):
            raise Violation("pvalue:range", "%s: pvalue(%r) = %r" % (what, s, p))
        if p < lo - 1e-9 or p > hi + 1e-9:
            raise Violation("pvalue:envelope", "%s, M=%d: pvalue(%r) = %r outside [P(S>=s+d), P(S>=s-d)] = [%r, %r], d = %r" % (what, m, s, p, lo, hi, d))
        if prev is not None and p > prev + 1e-12:
            raise Violation("pvalue:monotone", "%s: pvalue increases at %r" % (what, s))
        prev = p
    for p in a["pvalues"]:
        s = pssm.score(p)
        back = pssm.pvalue(s)
        if back > p + 1e-12:
            raise Violation("score:roundtrip", "%s: pvalue(score(%r)) = %r is larger" % (what, p, back))
    # the exported survival function of the same object (what pvalue() reads) agrees with pvalue() at both ends
    sf = memoryview(pssm.score_distribution).tolist()
    if any(not (0.0 <= x <= 1.0) for x in sf) or any(sf[i] > sf[i - 1] for i in range(1, len(sf))):
        raise Violation("score_distribution:sf", "%s: sf is not a non-increasing sequence in [0,1]" % what)
    info.comparisons += 1
    if not close(sf[0], pssm.pvalue(attain[0] - 1 - d), 1e-9):
        raise Violation("score_distribution:sf", "%s: sf[0] = %r but pvalue(below the minimum) = %r" % (what, sf[0], pssm.pvalue(attain[0] - 1 - d)))
    if abs(pssm.max_score() - sum(max(r[:4]) for r in rows)) > 1e-3:
        raise Violation("max_score", "%s: max_score() = %r expected %r" % (what, pssm.max_score(), sum(max(r[:4]) for r in rows)))
    return m, len(attain)


def check_pvalue(a, info):
    sites = a["sites"]
    bg = a.get("bg")
    motif = lightmotif.create(sites, protein=False)
    pwm = motif.counts.normalize(a["pseudo"])
    pssm = pwm.log_odds(bg) if bg is not None else pwm.log_odds()
    bgv = uniform_background(False) if bg is None else [float(bg.get(c, 0.0)) for c in DNA]
    cur, what, asked, m, n_att = pssm, "pssm", 0, 0, 0
    # a history on one chain of objects: queries and reverse complements in a generated order (the
    # background is a property of the matrix and is not mirrored, so the oracle mirrors the rows only)
    for op in a.get("order", "q"):
        if op == "q":
            m, n_att = pvalue_queries(cur, bgv, a, info, what)
            asked += 1
        else:
            before = pssm_rows(cur)
            cur = cur.reverse_complement()
            what += ".reverse_complement()"
            if pssm_rows(cur) != reverse_complement_rows(before):
                raise Violation("revcomp:mirror", "reverse_complement() is not the mirrored matrix")
    asym = bg is not None and (bgv[0] != bgv[2] or bgv[1] != bgv[3])
    info.cls("background-given", bg is not None)
    info.cls("strand-asymmetric-background", asym)
    info.cls("queried-before-and-after-reverse-complement", "qrq" in a.get("order", "q").replace("rr", ""))
    info.nontrivial = m >= 2 and n_att >= 3


@st.composite
def pvalue_args(draw):
    return {
        "sites": draw(sites_st(False, min_n=2, max_n=8, min_w=1, max_w=5)),
        "pseudo": draw(st.sampled_from([0.1, 0.25, 1.0])),
        "bg": draw(st.one_of(st.none(), dyadic_background(False))),
        "order": draw(st.sampled_from(["q", "q", "qrq", "rq", "qrqrq", "qrrq"])),
        "picks": draw(st.lists(st.integers(0, 10 ** 6), min_size=2, max_size=6)),
        "scores": draw(st.lists(st.floats(-30, 30, width=32, allow_nan=False), max_size=3)),
        "pvalues": draw(st.lists(st.floats(1e-6, 0.999, allow_nan=False), max_size=4)),
    }


# ----------------------------------------------------------------------------- reverse complement


def check_revcomp(a, info):
    pssm = build_pssm(a["sites"], False, a["pseudo"])
    rows = pssm_rows(pssm)
    rc = pssm.reverse_complement()
    if pssm_rows(rc) != reverse_complement_rows(rows):
        raise Violation("revcomp:mirror", "reverse_complement() is not the mirrored matrix")
    if pssm_rows(rc.reverse_complement()) != rows or not (rc.reverse_complement() == pssm):
        raise Violation("revcomp:involution", "rc(rc(pssm)) != pssm")
    seq = a["seq"]
    fwd = window_scores_f32(rows, indices(seq, False))
    got = rc.calculate(lightmotif.stripe(reverse_complement_seq(seq)))
    n = len(fwd)
    if len(got) != n:
        raise Violation("revcomp:length", "%d scores on the reverse strand, expected %d" % (len(got), n))
    for i in range(n):
        info.comparisons += 1
        if not close(got[n - 1 - i], float(fwd[i]), 1e-4):
            raise Violation("revcomp:scores", "position %d scores %r forward but L-M-i scores %r on the reverse complement" % (i, float(fwd[i]), got[n - 1 - i]))
    info.nontrivial = len(rows) >= 2 and n >= 1 and reverse_complement_rows(rows) != rows


# ----------------------------------------------------------------------------- two threads, one matrix


def check_two_threads(a, info):
    """One matrix object used by two Python threads at once, as when both strands are scanned in parallel: while a
    second thread scores a long sequence with it (calculate releases the interpreter lock), the first asks the same
    object for its reverse complement, its distribution and p-values. Every call must return what it returns in a
    single thread."""
    import threading
    pssm = build_pssm(a["sites"], False, a["pseudo"])
    rows = pssm_rows(pssm)
    unit = a["unit"]
    seq = (unit * (a["length"] // len(unit) + 1))[:a["length"]]
    striped = lightmotif.stripe(seq)
    ref_first = window_scores_f32(rows, indices(seq[:len(rows) + 3], False))
    started, errors, done = threading.Event(), [], []

    def worker():
        try:
            for _ in range(a["rounds"]):
                started.set()
                sc = pssm.calculate(striped)
                if len(ref_first) and not close(sc[0], float(ref_first[0]), 1e-4):
                    errors.append(Violation("threads:calculate", "calculate() in the second thread: score[0] = %r expected %r" % (sc[0], float(ref_first[0]))))
                    return
        except BaseException as e:  # noqa
            errors.append(e)
        finally:
            started.set()
            done.append(True)

    t = threading.Thread(target=worker)
    t.start()
    started.wait()
    try:
        for op in a["ops"]:
            info.comparisons += 1
            if op == "rc":
                rc = pssm.reverse_complement()
                if pssm_rows(rc) != reverse_complement_rows(rows):
                    raise Violation("threads:reverse_complement", "reverse_complement() while another thread calculates is not the mirrored matrix")
            elif op == "dist":
                sf = memoryview(pssm.score_distribution).tolist()
                if len(sf) != len(rows) * 1000 + 1:
                    raise Violation("threads:score_distribution", "%d values for width %d" % (len(sf), len(rows)))
            elif op == "pvalue":
                p = pssm.pvalue(0.0)
                if not (0.0 <= p <= 1.0):
                    raise Violation("threads:pvalue", "pvalue(0.0) = %r" % p)
            else:
                sc = pssm.calculate(lightmotif.stripe(seq[:64]))
                if len(sc) != max(0, 64 - len(rows) + 1) and len(seq) >= 64:
                    raise Violation("threads:calculate", "%d scores for a 64-symbol sequence and width %d" % (len(sc), len(rows)))
        overlapped = not done
    finally:
        t.join()
    if errors:
        e = errors[0]
        if isinstance(e, Violation):
            raise e
        raise e
    info.cls("first-thread-calls-overlapped-the-second-thread's-calculate", overlapped)
    info.nontrivial = overlapped and len(rows) >= 2


@st.composite
def two_threads_args(draw):
    return {
        "sites": draw(sites_st(False, min_n=2, max_n=6, min_w=2, max_w=12)),
        "pseudo": draw(st.sampled_from([0.1, 0.25, 1.0])),
        "unit": draw(st.text(alphabet=st.sampled_from("ACGT"), min_size=3, max_size=11)),
        "length": draw(st.sampled_from([200000, 400000, 1000000])),
        "rounds": draw(st.integers(3, 8)),
        "ops": draw(st.lists(st.sampled_from(["rc", "rc", "dist", "pvalue", "calculate"]), min_size=1, max_size=4)),
    }


# ----------------------------------------------------------------------------- load


def fmt_counts(format_, name, desc, ab, symbols, cols, crlf):
    nl = "\r\n" if crlf else "\n"
    out = []
    if format_ == "jaspar":
        out.append(">%s%s" % (name, (" " + desc) if desc else ""))
        for c in "ACGT":
            out.append(" ".join(str(x) for x in cols[c]))
    elif format_ == "jaspar16":
        out.append(">%s%s" % (name, ("\t" + desc) if desc else ""))
        for c in symbols:
            out.append("%s  [ %s ]" % (c, "  ".join(str(x) for x in cols[c])))
    elif format_ == "transfac":
        out.append("ID  %s" % name)
        out.append("AC  AC_%s" % name)
        if desc:
            out.append("DE  %s" % desc)
        out.append("NA  NA_%s" % name)
        out.append("XX")
        out.append("P0  " + "  ".join(symbols))
        m = len(next(iter(cols.values())))
        for i in range(m):
            out.append("%02d  " % (i + 1) + "  ".join(str(cols[c][i]) for c in symbols) + "  N")
        out.append("XX")
        out.append("//")
    return nl.join(out) + nl


def render_file(a):
    format_, protein, records = a["format"], a["protein"], a["records"]
    ab = letters(protein)
    text = ""
    for r in records:
        if format_ == "uniprobe":
            nl = "\r\n" if a["crlf"] else "\n"
            text += r["name"] + nl
            for c in r["symbols"]:
                text += "%s:\t%s%s" % (c, "\t".join("%.3f" % (x / 1000.0) for x in r["cols"][c]), nl)
            text += nl
        else:
            text += fmt_counts(format_, r["name"], r["desc"], ab, r["symbols"], r["cols"], a["crlf"])
    return text.encode("utf-8")


def check_load_malformed(a, info):
    """Malformed files through lightmotif.load: a motif list or an ordinary exception, never a panic."""
    data = bytearray(render_file(a["file"]))
    for kind, x, y in a["mutations"]:
        n = len(data)
        if kind == "truncate":
            del data[(x % (n + 1)):]
        elif kind == "substitute" and n:
            data[x % n] = y
        elif kind == "delete" and n:
            del data[x % n]
        elif kind == "insert":
            data.insert(x % (n + 1), y)
        elif kind == "insert-line-near-text":
            # the same, placed 0..3 lines before a line holding multi-byte characters: the text the parser could not
            # read (and which ends up in the error message) then starts shortly before them
            lines = bytes(data).splitlines(keepends=True)
            marked = [i for i, l in enumerate(lines) if any(b >= 0x80 for b in l)]
            if marked:
                at = max(0, marked[x % len(marked)] - (y % 4))
                lines.insert(at, [b"TY  Motif\n", b"ZZ  x\n", b"Q" * (1 + y % 7) + b"\n", b"\n"][y % 4])
                data = bytearray(b"".join(lines))
        elif kind == "insert-line":
            # a line no format knows, or a known line in an odd place: the parser fails with a long remainder
            lines = bytes(data).splitlines(keepends=True)
            extra = [b"TY  Motif\n", b"ZZ  x\n", b"XX\n", b"//\n", b">x y\n", b"P0  A  C  G  T\n", b"A [ 1 2 ]\n", b"\n"][y % 8]
            lines.insert(x % (len(lines) + 1), extra)
            data = bytearray(b"".join(lines))
        elif kind in ("delete-line", "duplicate-line") and n:
            lines = bytes(data).splitlines(keepends=True)
            i = x % len(lines)
            if kind == "delete-line":
                del lines[i]
            else:
                lines.insert(i, lines[i])
            data = bytearray(b"".join(lines))
    format_ = a["reader_format"] or a["file"]["format"]
    protein = a["file"]["protein"] and format_ != "jaspar"
    info.cls("reader:" + format_)
    for k, _, _ in a["mutations"]:
        info.cls("mut:" + k)
    try:
        motifs = list(lightmotif.load(io.BytesIO(bytes(data)), format=format_, protein=protein))
        if len(motifs) > len(data) + 2:
            raise Violation("load-malformed:too-many-records", "%d motifs from %d bytes" % (len(motifs), len(data)))
    except ORDINARY:
        info.cls("raised-ordinary-exception")
        info.nontrivial = True
    info.cls("foreign-format", a["reader_format"] not in (None, a["file"]["format"]))


class ShortReads:
    """Binary file-like object: read(n) hands out at most `piece` bytes per call, b"" at the end."""

    def __init__(self, data, piece):
        self.data, self.pos, self.piece = data, 0, max(1, piece)

    def read(self, n=-1):
        if n is None or n < 0:
            n = len(self.data)
        k = min(n, self.piece, len(self.data) - self.pos)
        out = self.data[self.pos:self.pos + k]
        self.pos += k
        return out


def check_load(a, info):
    format_, protein, records = a["format"], a["protein"], a["records"]
    ab = letters(protein)
    data = render_file(a)
    results = []
    path = None
    try:
        if a["via"] == "path":
            fd, path = tempfile.mkstemp(prefix="lmverif-", suffix="." + format_)
            os.write(fd, data)
            os.close(fd)
            results = list(lightmotif.load(path, format=format_, protein=protein))
        elif a["via"] == "bytesio":
            results = list(lightmotif.load(io.BytesIO(data), format=format_, protein=protein))
        elif a["via"] == "bytesio-positioned":
            # an in-memory file that is not at its start: something else was read from it first. Loading starts at
            # the current position, like reading any file object does; afterwards the object is exhausted, and
            # loading from it again yields nothing
            junk = b">not a motif 1 2 3\nthis part of the stream was consumed by someone else\n"
            f = io.BytesIO(junk + data)
            f.seek(len(junk))
            results = list(lightmotif.load(f, format=format_, protein=protein))
            again = list(lightmotif.load(f, format=format_, protein=protein))
            if again:
                raise Violation("load:exhausted-file", "%s: a second load() from the same, exhausted BytesIO returned %d motifs" % (format_, len(again)))
        else:
            # a duck-typed binary file whose read(n) returns fewer bytes than asked for before the end of the
            # data (pipes, sockets, decompressors): Python's read() contract allows that
            results = list(lightmotif.load(ShortReads(data, a.get("piece", 7)), format=format_, protein=protein))
    finally:
        if path:
            os.unlink(path)
    if len(results) != len(records):
        raise Violation("load:count", "%s via %s: %d motifs loaded, %d written" % (format_, a["via"], len(results), len(records)))
    ubg = uniform_background(protein)
    for r, mo in zip(records, results):
        m = len(next(iter(r["cols"].values())))
        name_want = ("NA_" + r["name"]) if format_ == "transfac" else r["name"]
        if mo.name != name_want or mo.protein != protein:
            raise Violation("load:name", "%s: name %r expected %r" % (format_, mo.name, name_want))
        if format_ == "transfac" and (mo.id != r["name"] or mo.accession != "AC_" + r["name"] or mo.description != r["desc"]):
            raise Violation("load:metadata", "transfac id/accession/description = %r/%r/%r" % (mo.id, mo.accession, mo.description))
        if format_ in ("jaspar", "jaspar16") and mo.description != r["desc"]:
            raise Violation("load:metadata", "%s description %r expected %r" % (format_, mo.description, r["desc"]))
        for i in range(m):
            info.comparisons += 1
            if format_ == "uniprobe":
                f = [float(np.float32("%.3f" % (r["cols"].get(c, [0] * m)[i] / 1000.0))) for c in ab]
                if mo.counts is not None:
                    raise Violation("load:counts", "a UniPROBE motif has counts")
            else:
                row = [r["cols"].get(c, [0] * m)[i] for c in ab]
                if list(mo.counts[i]) != row:
                    raise Violation("load:counts", "%s: position %d counts %r, written %r" % (format_, i, list(mo.counts[i]), row))
                if sum(row) == 0:
                    continue
                f = frequencies(row, [0.0] * len(row))
            w = weights(f, ubg)
            if not rows_close(list(mo.pwm[i]), w, 2e-4) or not rows_close(list(mo.pssm[i]), log_scores(w), 2e-4):
                raise Violation("load:scores", "%s: position %d weights/scores %r / %r expected %r / %r" % (format_, i, list(mo.pwm[i]), list(mo.pssm[i]), w, log_scores(w)))
    info.cls(format_)
    info.cls("via-" + a["via"])
    info.cls("protein" if protein else "dna")
    info.nontrivial = len(records) >= 2


@st.composite
def load_args(draw):
    format_ = draw(st.sampled_from(["jaspar", "jaspar16", "transfac", "transfac", "uniprobe"]))
    protein = False if format_ == "jaspar" else draw(st.booleans())
    ab = letters(protein)
    word = st.text(alphabet="ABCDEFGHIJKLMNOPQRSTUVWXYZabcdefgh0123456789._-", min_size=1, max_size=10)
    n = draw(st.integers(1, 5))
    records = []
    for _ in range(n):
        m = draw(st.integers(1, 10))
        if format_ == "jaspar":
            symbols = list("ACGT")
        else:
            symbols = draw(st.lists(st.sampled_from(ab[:-1]), min_size=1, max_size=len(ab) - 1, unique=True))
        if format_ == "uniprobe":
            # per position a composition of 1000 over the written symbols
            cols = {c: [] for c in symbols}
            for _i in range(m):
                rest = 1000
                for j, c in enumerate(symbols):
                    v = rest if j == len(symbols) - 1 else draw(st.integers(0, rest))
                    rest -= v
                    cols[c].append(v)
        else:
            cols = {c: draw(st.lists(st.integers(0, 500), min_size=m, max_size=m)) for c in symbols}
            # every position keeps at least one count (a zero row has no frequencies)
            for i in range(m):
                if all(cols[c][i] == 0 for c in symbols):
                    cols[symbols[0]][i] = 1
        # descriptions: absent, a short ASCII word, or a longer text with multi-byte characters (accents, Greek, CJK)
        # (built from a list of characters: Hypothesis' shrinker trips over a text() alphabet with non-ASCII characters)
        utext = st.lists(st.sampled_from(list("ab éèüñλμ中文ßøж")), min_size=30, max_size=90).map(lambda cs: "d" + " ".join("".join(cs).split()) + "x")
        records.append({"name": draw(word), "desc": draw(st.one_of(st.none(), word, utext)), "symbols": symbols, "cols": cols})
    return {"format": format_, "protein": protein, "records": records, "crlf": draw(st.booleans()), "via": draw(st.sampled_from(["path", "bytesio", "bytesio-positioned", "short-reads"])), "piece": draw(st.sampled_from([1, 7, 100, 5000]))}


@st.composite
def load_malformed_args(draw):
    mut = st.tuples(st.sampled_from(["truncate", "substitute", "substitute", "delete", "insert", "delete-line", "duplicate-line", "insert-line", "insert-line", "insert-line-near-text", "insert-line-near-text"]), st.integers(0, 10 ** 6),
                    st.integers(0, 255 + 12).map(lambda v: v if v < 256 else [10, 13, 62, 91, 93, 9, 32, 47, 58, 0, 255, 195][v - 256]))
    return {
        "file": draw(load_args()),
        "mutations": draw(st.lists(mut, min_size=1, max_size=3)),
        "reader_format": draw(st.one_of(st.none(), st.none(), st.none(), st.sampled_from(["jaspar", "jaspar16", "transfac", "uniprobe"]))),
    }


# ----------------------------------------------------------------------------- registry


@st.composite
def revcomp_args(draw):
    return {"sites": draw(sites_st(False)), "pseudo": draw(st.sampled_from([0.1, 0.25, 1.0])), "seq": draw(sequence_st(False))}


BAD_KINDS = ["alphabet-mismatch-calculate", "alphabet-mismatch-scan", "invalid-sequence", "bad-background", "bad-pseudocount", "bad-matrix", "bad-method", "bad-load"]

SUBS = [
    Sub("create", "site lists (given as a list, a tuple or something that can be walked only once: a generator, an iterator, a map object; DNA / protein, 0..10 sites of width 0..15, 20% made invalid by an unequal length or a foreign / lower-case / non-ASCII symbol) -> lightmotif.create; counts = occurrence counts, pwm = (count/n)/uniform background, pssm = log2; invalid input must raise an ordinary exception; non-trivial = >= 2 sites of width >= 2, or a rejection",
        create_args(), check_create, 300, 5000),
    Sub("log_odds", "CountMatrix from a dict (symbol subset, width 1..12) -> normalize(pseudocount None / float / dict) -> log_odds(background dict of dyadic frequencies or None, base 2 / 10 / e / 3.5); rows compared with (c+p)/total / uniform background and log_base(freq / given background); non-trivial = width >= 2 and (background given or dict pseudocount or base != 2)",
        log_odds_args(), check_log_odds, 400, 6000),
    Sub("bad-arguments", "eight families of invalid calls (alphabet mismatch in calculate / scan, invalid sequence text, bad background, bad pseudocount, malformed matrices, unknown method, bad load input); each must raise ValueError / TypeError / IndexError / OverflowError / OSError / RuntimeError and never PanicException; every case is non-trivial",
        st.fixed_dictionaries({"kind": st.sampled_from(BAD_KINDS), "text": st.text(alphabet="ACGT", max_size=6)}), check_bad_arguments, 80, 800),
    Sub("calculate", "sequence (DNA / protein, L 0..200 and around 1024, wildcards) x motif from generated sites (width 1..12) -> ScoringMatrix.calculate on a striped sequence; len, every score (f32 reference in numpy, same summation order), max / argmax / threshold (thresholds at real scores +- 1e-3) compared with the per-position window sums; the whole call chain under the host's dispatcher arm or one forced through the verif-hooks feature (generic / sse2 / avx2); non-trivial = L > 32 (>= 2 striped rows), width >= 2 and >= 1 valid position",
        calculate_args(), check_calculate, 300, 6000),
    Sub("scan", "DNA sequence x motif (made from sites or, 1 in 3, a ScoringMatrix declared directly from columns of scores in [-8, 8] with or without a column for N) x threshold (a real score +- 1e-3, the best score of any window, -1e6, default, 1e6) x block_size (default, 1..300) the best-scoring word over the whole alphabet planted in half of the sequences -> lightmotif.scan; (position, score) multiset equals the reference; non-trivial = some but not all positions hit",
        scan_args(), check_scan, 300, 6000),
    Sub("reuse", "one StripedSequence object reused by 1..8 operations (calculate, scan, calculate / scan with the reverse complement of a motif object used before) with up to 4 motifs of different widths (1..30) in a generated order; every result equals the reference for that motif; non-trivial = >= 2 ops, >= 2 distinct widths, L > 32",
        reuse_args(), check_reuse, 200, 4000),
    Sub("pvalue", "DNA motif of width 1..5 under the uniform or a generated (strand-asymmetric) background, then a generated history of queries and reverse_complement() calls on the chain of matrix objects (query, mirror, query again, ...) -> pvalue / score (method='meme') of each object against a full Python enumeration of all 4^M words of ITS rows: P(S>=s+d) <= pvalue(s) <= P(S>=s-d), monotone, pvalue(score(p)) <= p, max_score; non-trivial = width >= 2 with >= 3 attainable scores",
        pvalue_args(), check_pvalue, 300, 4000),
    Sub("reverse_complement", "DNA motif x sequence: reverse_complement() is the mirrored matrix, an involution, and scores position L-M-i of the reverse-complemented sequence like the original scores position i; non-trivial = width >= 2, non-palindromic, >= 1 position",
        revcomp_args(), check_revcomp, 200, 4000),
    Sub("two-threads", "one ScoringMatrix shared by two Python threads: the second scores a 0.2..1 M-symbol sequence with it 3..8 times (calculate releases the interpreter lock) while the first asks the same object for its reverse complement / score distribution / p-value / another calculate; every call must return, and return what it does in one thread; non-trivial = the calls did overlap the other thread's calculate",
        two_threads_args(), check_two_threads, 40, 400),
    Sub("load", "1..5 records written in JASPAR / JASPAR 2016 / TRANSFAC / UniPROBE syntax (DNA and protein, symbol subsets, CRLF) loaded from a path, a BytesIO, a BytesIO positioned behind a prefix somebody else consumed (and then once more, exhausted: nothing) or a duck-typed file object whose read() returns 1 / 7 / 100 / 5000 bytes at a time; names, metadata, counts and pwm / pssm rows equal the written data pushed through the definitions; non-trivial = >= 2 records",
        load_args(), check_load, 200, 4000),
    Sub("load-malformed", "a valid generated motif file with 1..3 byte / line mutations (truncation, substitution, deletion, insertion, line removal / duplication / insertion of unknown or misplaced lines, invalid UTF-8 bytes; descriptions may hold multi-byte characters), read by lightmotif.load through a BytesIO with its own or (1 in 4) a foreign format: the call must return motifs or raise ValueError / OSError / another ordinary exception, never PanicException (C15 seen from Python); non-trivial = an exception was raised",
        load_malformed_args(), check_load_malformed, 500, 8000),
]

ASSUMPTIONS = [
    "the reference scores are numpy float32 sums in the same left-to-right order the library defines; other quantities are compared with relative tolerance 1e-4 (f32 results vs f64 definitions)",
    "block sizes >= 1 and numeric thresholds only; method='tfmpvalue' is not driven from Python (its unbounded refinement need not terminate for attainable scores; the bounded iterator is checked by C12/C13)",
    "'ordinary Python exceptions' = ValueError, TypeError, IndexError, OverflowError, OSError, RuntimeError, KeyError, BufferError; pyo3_runtime.PanicException always fails",
    "the extension module is the repository's lightmotif-py crate linked into pyharness and registered as lightmotif.lib, as the repository's own unittest.rs does",
]
