//! pyharness — embeds CPython, registers the repository's `lightmotif.lib` extension
//! module (exactly like lightmotif-py/lightmotif/tests/unittest.rs does) and runs a
//! driver script of /verif/py with Hypothesis available.
//!
//!   pyharness <script.py> [args...]        exit code = the script's SystemExit code

use pyo3::prelude::*;
use pyo3::types::{PyDict, PyList, PyModule};

/// Force the arm of the runtime dispatcher for the calling thread (verif-hooks).
#[pyfunction]
fn force_backend(name: Option<&str>) -> PyResult<()> {
    use lightmotif::pli::dispatch::Dispatch;
    let b = match name {
        None => None,
        Some("generic") => Some(Dispatch::Generic),
        Some("sse2") => Some(Dispatch::Sse2),
        Some("avx2") => Some(Dispatch::Avx2),
        Some(other) => return Err(pyo3::exceptions::PyValueError::new_err(format!("unknown backend {other}"))),
    };
    lightmotif::pli::verif_hooks::force_backend(b);
    Ok(())
}

fn main() {
    let args: Vec<String> = std::env::args().collect();
    if args.len() < 2 {
        eprintln!("usage: pyharness <script.py> [args...]");
        std::process::exit(2);
    }
    let repo = std::env::var("VERIF_REPO").unwrap_or_else(|_| "/repo".into());
    let verif = std::env::var("VERIF_DIR").unwrap_or_else(|_| "/verif".into());
    let site = std::env::var("VERIF_SITE_PACKAGES").unwrap_or_else(|_| "/opt/veriftools/pyvenv/lib/python3.11/site-packages".into());
    // panics crossing into Python become PanicException (with their message); keep stderr quiet
    std::panic::set_hook(Box::new(|_| {}));
    pyo3::prepare_freethreaded_python();
    let code = Python::with_gil(|py| -> PyResult<i32> {
        let sys = py.import_bound("sys")?;
        let path = sys.getattr("path")?;
        let path = path.downcast::<PyList>()?;
        path.insert(0, format!("{}/lightmotif-py", repo))?;
        path.insert(0, format!("{}/py", verif))?;
        path.append(site)?;
        // the extension module, built from the current /repo sources and linked in statically
        let module = PyModule::new_bound(py, "lightmotif.lib")?;
        lightmotif_py::init(py, &module)?;
        module.add_function(wrap_pyfunction!(force_backend, &module)?)?;
        sys.getattr("modules")?.downcast::<PyDict>()?.set_item("lightmotif.lib", module)?;
        sys.setattr("argv", PyList::new_bound(py, &args[1..]))?;
        let runpy = py.import_bound("runpy")?;
        let kwargs = PyDict::new_bound(py);
        kwargs.set_item("run_name", "__main__")?;
        match runpy.call_method("run_path", (&args[1],), Some(&kwargs)) {
            Ok(_) => Ok(0),
            Err(e) => {
                if e.is_instance_of::<pyo3::exceptions::PySystemExit>(py) {
                    let c = e.value_bound(py).getattr("code")?;
                    Ok(c.extract::<i32>().unwrap_or(if c.is_none() { 0 } else { 1 }))
                } else {
                    e.print(py);
                    Ok(2)
                }
            }
        }
    });
    match code {
        Ok(c) => std::process::exit(c),
        Err(e) => {
            eprintln!("pyharness: {e}");
            std::process::exit(2);
        }
    }
}
