//! C10 — reverse-complementing a motif mirrors its scores on the opposite strand.

use generic_array::GenericArray;
use lightmotif::abc::{Alphabet, Dna, Pseudocounts};
use lightmotif::dense::DenseMatrix;
use lightmotif::num::U32;
use lightmotif::pli::{Pipeline, Score, Stripe};
use lightmotif::pwm::{CountMatrix, ScoringMatrix};
use lightmotif::seq::StripedSequence;
use proptest::prelude::*;
use serde::{Deserialize, Serialize};

use crate::engine::*;
use crate::gen::*;

type K = <Dna as Alphabet>::K;

/// complement of a DNA symbol index in the library's order A, C, T, G, N
const COMP: [usize; 5] = [2, 3, 0, 1, 4];

#[derive(Clone, Debug, Serialize, Deserialize)]
pub struct Case {
    pub counts: Vec<Vec<u32>>,
    /// pseudocounts for (A/T, C/G, N): strand-symmetric by construction
    pub pseudo: (Fl, Fl, Fl),
    /// background weights for (A/T, C/G, N) out of 64: strand-symmetric by construction
    pub bg: (u8, u8),
    /// arbitrary scoring matrix (any content incl. the wildcard column)
    pub mat: MatSpec,
    pub seq: SeqSpec,
    pub arm: Arm,
    /// the forward matrix object is USED before it is reverse-complemented (discretised, scanned,
    /// its score distribution built): whatever an object memoises must not leak into its mirror image
    #[serde(default)]
    pub used_before: bool,
    /// base of the logarithm of the count -> frequency -> weight -> score route (`to_scoring_with_base`)
    #[serde(default = "base_two")]
    pub base: Fl,
    /// (number of sequences, seed): the count matrix is not built from `counts` with `CountMatrix::new` but from
    /// that many sequences of `counts.len()` symbols through `CountMatrix::from_sequences` - the route on which the
    /// sequence count is independent of the cells (an alignment of k EMPTY sequences has no row and count k)
    #[serde(default)]
    pub from_seqs: Option<(u8, u64)>,
}

fn base_two() -> Fl {
    Fl(2.0)
}

pub struct RevComp;

// A second complementable alphabet, declared by the caller as the public traits allow: RNA in the order
// A C G U N (complement permutation [3, 2, 1, 0, 4], unlike DNA's [2, 3, 0, 1, 4]). It is reverse-complemented
// once, before the first DNA matrix of the process: generic code must not let one alphabet's complement
// table leak into another's. Nothing is asserted about the RNA result itself (the property speaks of DNA).
#[derive(Clone, Copy, Debug, Default, PartialEq, Eq)]
#[repr(u8)]
pub enum Ribo {
    A = 0,
    C = 1,
    G = 2,
    U = 3,
    #[default]
    N = 4,
}

impl lightmotif::abc::Symbol for Ribo {
    fn as_index(&self) -> usize {
        *self as usize
    }
    fn as_ascii(&self) -> u8 {
        b"ACGUN"[*self as usize]
    }
    fn from_ascii(c: u8) -> Result<Self, lightmotif::err::InvalidSymbol> {
        match c {
            b'A' => Ok(Ribo::A),
            b'C' => Ok(Ribo::C),
            b'G' => Ok(Ribo::G),
            b'U' => Ok(Ribo::U),
            b'N' => Ok(Ribo::N),
            _ => Err(lightmotif::err::InvalidSymbol(c as char)),
        }
    }
}

impl lightmotif::abc::ComplementableSymbol for Ribo {
    fn complement(&self) -> Self {
        match self {
            Ribo::A => Ribo::U,
            Ribo::U => Ribo::A,
            Ribo::C => Ribo::G,
            Ribo::G => Ribo::C,
            Ribo::N => Ribo::N,
        }
    }
}

#[derive(Clone, Copy, Debug, Default, PartialEq, Eq)]
pub struct Rna;

impl Alphabet for Rna {
    type Symbol = Ribo;
    type K = K;
    fn symbols() -> &'static [Ribo] {
        &[Ribo::A, Ribo::C, Ribo::G, Ribo::U, Ribo::N]
    }
    fn as_str() -> &'static str {
        "ACGUN"
    }
}

static OTHER_ALPHABET_FIRST: std::sync::Once = std::sync::Once::new();

fn use_other_alphabet_first() {
    OTHER_ALPHABET_FIRST.call_once(|| {
        let mut dm = DenseMatrix::<u32, K>::new(3);
        for i in 0..3 {
            for j in 0..5 {
                dm[i][j] = (i * 5 + j) as u32;
            }
        }
        let cm = CountMatrix::<Rna>::new(dm).unwrap();
        let rc = cm.reverse_complement();
        let f = rc.to_freq(0.5).reverse_complement();
        let w = f.to_weight(None).reverse_complement();
        let _ = w.to_scoring().reverse_complement();
    });
}

fn close(a: f64, b: f64, tol: f64) -> bool {
    a == b || (a.is_finite() && b.is_finite() && (a - b).abs() <= tol * (1.0 + a.abs().max(b.abs())))
}

fn sym_bg(bg: (u8, u8)) -> BgSpec {
    // a + a + c + c + n = 64
    let a = bg.0.min(27);
    let n = bg.1.min(8) / 2 * 2;
    let c = (64 - 2 * a as i32 - n as i32) / 2;
    BgSpec::Dyadic(vec![a, c as u8, a, c as u8, n])
}

fn mirror(rows: &[Vec<f32>]) -> Vec<Vec<f32>> {
    rows.iter().rev().map(|r| (0..5).map(|j| r[COMP[j]]).collect()).collect()
}

impl Sub for RevComp {
    type Case = Case;
    fn name(&self) -> &'static str {
        "revcomp"
    }
    fn rule(&self) -> &'static str {
        "DNA count matrix (width 0..30, any content incl. wildcard counts; one in four built from 1..40 sequences through from_sequences, where the sequence count does not follow from the cells - down to an alignment of empty sequences) x strand-symmetric pseudocounts and background x arbitrary scoring matrix (finite / -inf cells, finite wildcard column) x DNA sequence (L 0..300); (i) rc(rc(X)) == X exactly and rc(X) == the mirrored model for count, frequency, weight and scoring matrices; (ii) rc commutes with to_freq / to_weight / to_scoring (tol 1e-5), and for the scores in a logarithm base from {2, 10, e, 3.7, 1.5..20}: rc(rc(s)) == s, WeightMatrix::from(rc(s)) == rc(WeightMatrix::from(s)) cell by cell, rc(s).information_content() == s.information_content() (1e-4 of the summed magnitudes), and rc(s) == the scores of the mirrored weights as whole objects wherever their cells agree bit for bit; (iii) min_score / max_score of rc(pssm) equal those of pssm; (iv) score_rc[L-M-i] on rc(seq) == score[i] on seq within the summation bound, through the generic scorer and the dispatcher forced to an arm; (v) in half of the cases the forward object is first discretised / scanned / given a score distribution, and rc(pssm).to_discrete(), Scanner hits and Scanner::max over rc(pssm) must equal those of an equal, freshly built matrix; non-trivial = M >= 2 and rc(X) != X"
    }
    fn cases(&self, tier: Tier) -> u64 {
        tier.pick(60_000, 1_500_000)
    }
    fn strategy(&self, _tier: Tier) -> BoxedStrategy<Case> {
        (
            (0usize..=30).prop_flat_map(|m| proptest::collection::vec(proptest::collection::vec(prop_oneof![2 => Just(0u32), 5 => 0u32..=40, 1 => 0u32..=1000], 5), m)),
            (prop_oneof![Just(0.0f32), Just(0.1f32), 0.0f32..2.0], prop_oneof![Just(0.0f32), Just(0.1f32), 0.0f32..2.0], prop_oneof![3 => Just(0.0f32), 1 => 0.0f32..1.0]),
            (1u8..=30, 0u8..=8),
            mat_strategy(Abc::Dna, prop_oneof![1 => Just(1usize), 8 => 2usize..=30].boxed(), Regimes::ALL),
            seq_strategy(5, (0usize..=300).boxed()),
            arm_strategy(),
            any::<bool>(),
            prop_oneof![2 => Just(2.0f32), 2 => Just(10.0f32), 1 => Just(std::f32::consts::E), 1 => Just(3.7f32), 1 => 1.5f32..20.0],
            prop_oneof![3 => Just(None), 1 => (1u8..=40, any::<u64>()).prop_map(Some)],
        )
            .prop_map(|(counts, p, bg, mat, seq, arm, used_before, base, from_seqs)| Case { counts, pseudo: (Fl(p.0), Fl(p.1), Fl(p.2)), bg, mat, seq, arm, used_before, base: Fl(base), from_seqs })
            .boxed()
    }
    fn check(&self, case: &Case, _cx: &Cx) -> Verdict {
        use_other_alphabet_first();
        let mut info = CaseInfo::new();
        let m = case.counts.len();
        // ---------------- counts
        let mut dm = DenseMatrix::<u32, K>::new(m);
        for (i, r) in case.counts.iter().enumerate() {
            dm[i].copy_from_slice(r);
        }
        let mut cm = CountMatrix::<Dna>::new(dm).unwrap();
        let mut owned_counts = case.counts.clone();
        if let Some((n, seed)) = case.from_seqs {
            let mut st = seed;
            let seqs: Vec<lightmotif::seq::EncodedSequence<Dna>> = (0..n.max(1))
                .map(|_| {
                    let idx: Vec<u8> = (0..m).map(|_| { st = splitmix64(st); ((st >> 24) % 5) as u8 }).collect();
                    lightmotif::seq::EncodedSequence::new(syms::<Dna>(&idx))
                })
                .collect();
            cm = CountMatrix::<Dna>::from_sequences(seqs.iter()).expect("equal lengths");
            owned_counts = (0..m).map(|i| cm.matrix()[i].to_vec()).collect();
            info.class("counts-from-sequences");
            info.class_if(m == 0, "alignment-of-empty-sequences");
            if cm.sequence_count() != n.max(1) as usize {
                return Verdict::Fail(Failure::new("count:sequence-count", format!("from_sequences of {} sequences reports {}", n.max(1), cm.sequence_count())));
            }
        }
        let case = &Case { counts: owned_counts, ..case.clone() };
        let rc = cm.reverse_complement();
        if rc.reverse_complement() != cm {
            return Verdict::Fail(Failure::new("count:involution", "rc(rc(counts)) != counts".to_string()));
        }
        for i in 0..m {
            for j in 0..5 {
                info.comparisons += 1;
                if rc.matrix()[i][j] != case.counts[m - 1 - i][COMP[j]] {
                    return Verdict::Fail(Failure::new("count:mirror", format!("rc(counts)[{}][{}] = {} expected counts[{}][{}] = {}", i, j, rc.matrix()[i][j], m - 1 - i, COMP[j], case.counts[m - 1 - i][COMP[j]])));
                }
            }
        }
        if rc.sequence_count() != cm.sequence_count() {
            return Verdict::Fail(Failure::new("count:sequence-count", "rc changes the sequence count".to_string()));
        }
        // ---------------- conversions commute under strand-symmetric parameters
        let (pa, pc, pn) = (case.pseudo.0 .0, case.pseudo.1 .0, case.pseudo.2 .0);
        let pseudo = || Pseudocounts::<Dna>::from(GenericArray::<f32, K>::from([pa, pc, pa, pc, pn]));
        let zero_row = case.counts.iter().any(|r| r.iter().map(|&x| x as f64).sum::<f64>() + (2.0 * pa + 2.0 * pc + pn) as f64 <= 0.0);
        if !zero_row {
            let bgs = sym_bg(case.bg);
            let bg = || build_bg::<Dna>(&bgs);
            let f = cm.to_freq(pseudo());
            let frc = f.reverse_complement();
            if frc.reverse_complement() != f {
                return Verdict::Fail(Failure::new("freq:involution", "rc(rc(freq)) != freq".to_string()));
            }
            let f2 = rc.to_freq(pseudo());
            let w = f.to_weight(bg());
            let wrc = w.reverse_complement();
            if wrc.reverse_complement() != w {
                return Verdict::Fail(Failure::new("weight:involution", "rc(rc(weight)) != weight".to_string()));
            }
            if wrc.background().frequencies() != w.background().frequencies() {
                return Verdict::Fail(Failure::new("weight:background", "rc(weight) changes the background".to_string()));
            }
            let w2 = f2.to_weight(bg());
            let s = f.to_scoring(bg());
            let src = s.reverse_complement();
            let s2 = f2.to_scoring(bg());
            for i in 0..m {
                for j in 0..5 {
                    info.comparisons += 3;
                    let pairs = [
                        ("freq", frc.matrix()[i][j] as f64, f2.matrix()[i][j] as f64, f.matrix()[m - 1 - i][COMP[j]] as f64),
                        ("weight", wrc.matrix()[i][j] as f64, w2.matrix()[i][j] as f64, w.matrix()[m - 1 - i][COMP[j]] as f64),
                        ("scoring", src.matrix()[i][j] as f64, s2.matrix()[i][j] as f64, s.matrix()[m - 1 - i][COMP[j]] as f64),
                    ];
                    for (name, rc_of_conv, conv_of_rc, mirrored) in pairs {
                        if rc_of_conv != mirrored {
                            return Verdict::Fail(Failure::new(format!("{}:mirror", name), format!("rc({})[{}][{}] = {} expected the mirrored cell {}", name, i, j, rc_of_conv, mirrored)));
                        }
                        if !close(rc_of_conv, conv_of_rc, 2e-5) {
                            return Verdict::Fail(Failure::new(
                                format!("{}:commute", name),
                                format!("row {} symbol {}: rc(convert(counts)) = {} but convert(rc(counts)) = {}", i, j, rc_of_conv, conv_of_rc),
                            ));
                        }
                    }
                }
            }
            // ---- the same route in another logarithm base: everything a scoring matrix carries along must
            // follow it through the mirror image
            let base = case.base.0;
            info.class_if(base != 2.0, "log-base!=2");
            let sb = w.to_scoring_with_base(base);
            let sbrc = sb.reverse_complement();
            let sb2 = w2.to_scoring_with_base(base);
            let has_nan = |x: &ScoringMatrix<Dna>| (0..m).any(|i| x.matrix()[i].iter().any(|v| v.is_nan()));
            if !has_nan(&sb) {
                info.comparisons += 3;
                if sbrc.reverse_complement() != sb {
                    return Verdict::Fail(Failure::new("scoring:involution", format!("rc(rc(s)) != s for s = weights.to_scoring_with_base({})", base)));
                }
                // rc(s) against the scores of the reverse-complemented weights, as whole objects where the cells agree
                let same_cells = (0..m).all(|i| (0..5).all(|j| sbrc.matrix()[i][j].to_bits() == sb2.matrix()[i][j].to_bits()));
                if same_cells && sbrc.background().frequencies() == sb2.background().frequencies() && sbrc != sb2 {
                    return Verdict::Fail(Failure::new(
                        "scoring:commute",
                        format!("base {}: rc(weights.to_scoring_with_base(b)) and rc(weights).to_scoring_with_base(b) have the same cells and background but compare unequal", base),
                    ));
                }
                // back to weights: converting the mirror image == mirroring the conversion, cell by cell (same function of the same numbers)
                let back_of_rc = lightmotif::pwm::WeightMatrix::<Dna>::from(sbrc.clone());
                let rc_of_back = lightmotif::pwm::WeightMatrix::<Dna>::from(sb.clone()).reverse_complement();
                for i in 0..m {
                    for j in 0..5 {
                        let (a, b) = (back_of_rc.matrix()[i][j], rc_of_back.matrix()[i][j]);
                        if a.to_bits() != b.to_bits() && !(a.is_nan() && b.is_nan()) {
                            return Verdict::Fail(Failure::new(
                                "weight-from-scoring:commute",
                                format!("base {} row {} symbol {}: WeightMatrix::from(rc(s)) = {} but rc(WeightMatrix::from(s)) = {}", base, i, j, a, b),
                            ));
                        }
                    }
                }
                // the information content is a sum over the cells, each weighted by the (strand-symmetric) background
                let (ia, ib) = (sbrc.information_content() as f64, sb.information_content() as f64);
                let bgf = sb.background().frequencies().to_vec();
                let mass: f64 = (0..m)
                    .map(|i| (0..5).map(|j| { let x = sb.matrix()[i][j] as f64; if bgf[j] == 0.0 || !x.is_finite() { 0.0 } else { (2f64.powf(x) * bgf[j] as f64 * x).abs() } }).sum::<f64>())
                    .sum();
                if ia.is_finite() && ib.is_finite() && mass.is_finite() && (ia - ib).abs() > 1e-4 * (1.0 + mass) {
                    return Verdict::Fail(Failure::new(
                        "scoring:information-content",
                        format!("base {}: rc(s).information_content() = {} but s.information_content() = {}", base, ia, ib),
                    ));
                }
            }
        } else {
            info.class("zero-row(conversions skipped)");
        }
        // ---------------- arbitrary scoring matrix: involution, mirror, mirrored scores
        let cells = case.mat.cells();
        let mm = cells.len();
        let pssm: ScoringMatrix<Dna> = build_pssm::<Dna>(&case.mat);
        let idx0 = case.seq.expand(5);
        if case.used_before && mm >= 1 {
            // use the forward object first: discretise it, scan with it, build its score distribution
            let _ = pssm.to_discrete();
            let mut fwd: StripedSequence<Dna, U32> = Pipeline::<Dna, _>::generic().stripe(&syms::<Dna>(&idx0));
            fwd.configure(&pssm);
            // the scanner parts run on the AVX2 arm: the scalar 8-bit kernel of the other arms is the open finding
            // KF06 (wraps / panics on windows summing above 255) and is not this property's subject
            let _g = Arm::Avx2.force();
            let mut sc = lightmotif::scan::Scanner::new(&pssm, &fwd);
            sc.threshold(pssm.max_score() / 2.0);
            let _ = sc.next();
            let _ = sc.max();
            if mm <= 12 {
                let _ = pssm.to_score_distribution();
            }
        }
        let prc = pssm.reverse_complement();
        if prc.reverse_complement() != pssm {
            return Verdict::Fail(Failure::new("scoring:involution", "rc(rc(pssm)) != pssm".to_string()));
        }
        let mir = mirror(&cells);
        for i in 0..mm {
            for j in 0..5 {
                let a = prc.matrix()[i][j];
                if !(a == mir[i][j] || (a.is_nan() && mir[i][j].is_nan())) {
                    return Verdict::Fail(Failure::new("scoring:mirror", format!("rc(pssm)[{}][{}] = {} expected {}", i, j, a, mir[i][j])));
                }
            }
        }
        // the attainable score range is strand-independent (each row keeps its set of non-wildcard cells)
        if mm >= 1 {
            for (name, a, b) in [("min_score", prc.min_score(), pssm.min_score()), ("max_score", prc.max_score(), pssm.max_score())] {
                info.comparisons += 1;
                let scale: f32 = cells.iter().map(|r| r[..4].iter().filter(|x| x.is_finite()).fold(0.0f32, |acc, x| acc.max(x.abs()))).sum();
                let ok = a == b || (a.is_nan() && b.is_nan()) || (a.is_finite() && b.is_finite() && (a - b).abs() <= 1e-5 * (1.0 + scale));
                if !ok {
                    return Verdict::Fail(Failure::new(format!("scoring:{}", name), format!("rc(pssm).{}() = {} but pssm.{}() = {}", name, a, name, b)));
                }
            }
        }
        let idx = case.seq.expand(5);
        let l = idx.len();
        let ridx: Vec<u8> = idx.iter().rev().map(|&x| COMP[x as usize] as u8).collect();
        let fwd_ref = ref_scores_f64(&cells, &idx);
        let n = fwd_ref.len();
        if mm >= 1 {
            let symbols = syms::<Dna>(&ridx);
            let mut striped: StripedSequence<Dna, U32> = Pipeline::<Dna, _>::generic().stripe(&symbols);
            striped.configure(&prc);
            let g = Pipeline::<Dna, _>::generic().score(&prc, &striped).unstripe();
            let d = {
                let _g = case.arm.force();
                prc.score(&striped).unstripe()
            };
            // everything derived from rc(pssm) must be what an independently built matrix with the same
            // cells and background gives: the discrete matrix, and what a scanner yields on the reverse strand
            let fresh = ScoringMatrix::<Dna>::new(prc.background().clone(), prc.matrix().clone());
            let (da, db) = (prc.to_discrete(), fresh.to_discrete());
            info.comparisons += 1;
            if da.matrix() != db.matrix() || (0..4).any(|q| da.scale(q as f32 * 1.5 - 2.0) != db.scale(q as f32 * 1.5 - 2.0)) {
                return Verdict::Fail(Failure::new("scoring:discrete-of-rc", "rc(pssm).to_discrete() differs from the discrete matrix of an equal, freshly built scoring matrix".to_string()));
            }
            {
                let _g = Arm::Avx2.force();
                let mut sorted: Vec<f32> = g.iter().cloned().filter(|x| x.is_finite()).collect();
                sorted.sort_by(|a, b| a.partial_cmp(b).unwrap());
                let t = if sorted.is_empty() { 0.0 } else { sorted[sorted.len() * 3 / 4] };
                let collect = |m: &ScoringMatrix<Dna>| {
                    let mut sc = lightmotif::scan::Scanner::new(m, &striped);
                    sc.threshold(t);
                    let mut v: Vec<(usize, u32)> = sc.map(|h| (h.position(), h.score().to_bits())).collect();
                    v.sort_unstable();
                    v
                };
                let (ha, hb) = (collect(&prc), collect(&fresh));
                info.comparisons += 1;
                if ha != hb {
                    return Verdict::Fail(Failure::new(
                        "scanner:rc-vs-fresh",
                        format!("a scanner over rc(pssm) yields {} hits at threshold {}, over an equal freshly built matrix {} hits", ha.len(), t, hb.len()),
                    ));
                }
                let best = |m: &ScoringMatrix<Dna>| {
                    let mut sc = lightmotif::scan::Scanner::new(m, &striped);
                    sc.threshold(t);
                    sc.max().map(|h| h.score().to_bits())
                };
                if best(&prc) != best(&fresh) {
                    return Verdict::Fail(Failure::new("scanner:rc-vs-fresh", "Scanner::max over rc(pssm) differs from the one over an equal freshly built matrix".to_string()));
                }
            }
            if g.len() != n || d.len() != n {
                return Verdict::Fail(Failure::new("scores:count", format!("{} / {} scores on the reverse strand, expected {}", g.len(), d.len(), n)));
            }
            for i in 0..n {
                let (ex, abs, inf) = fwd_ref[i];
                for (name, v) in [("generic", g[n - 1 - i]), ("dispatch", d[n - 1 - i])] {
                    info.comparisons += 1;
                    let ok = if inf { v == f32::NEG_INFINITY } else { (v as f64 - ex).abs() <= (mm as f64) * 2f64.powi(-22) * abs + 1e-30 };
                    if !ok {
                        return Verdict::Fail(Failure::new(
                            format!("scores:mirror:{}", name),
                            format!("position {} scores {} on the forward strand but rc position {} = L-M-i scores {} (L={}, M={})", i, ex, n - 1 - i, v, l, mm),
                        ));
                    }
                }
            }
        }
        let differs = (0..mm).any(|i| (0..5).any(|j| mir[i][j] != cells[i][j]));
        info.nontrivial = mm >= 2 && differs;
        info.class_if(!differs && mm > 0, "palindromic-matrix");
        info.class_if(l < mm, "L<M");
        info.class_if(cells.iter().any(|r| r[4].is_finite() && r[4] != 0.0), "wildcard-column-non-zero");
        info.class_if(m == 0, "counts-M=0");
        info.class_if(case.used_before, "forward-object-used-before-rc");
        info.class(case.arm.name());
        Verdict::Pass(info)
    }
}

pub fn property() -> Property {
    Property {
        id: "C10",
        subs: vec![Box::new(RevComp)],
        assumptions: vec![
            "commutation is only claimed under strand-symmetric pseudocounts and background (generated symmetric by construction); tolerance 2e-5 because to_freq sums a row in a different column order",
            "mirrored scores are compared within M*2^-22*sum|term| of the exact forward score (summation order is reversed)",
            "only the DNA alphabet shipped by the library is complementable; the harness declares a second one (RNA, another complement permutation) through the public traits and reverse-complements one RNA matrix of each kind before the first DNA matrix of the process - nothing is asserted about the RNA results",
        ],
    }
}
