//! C01 — every backend computes the defined PSSM score at every position.

use std::ops::Range;

use lightmotif::abc::{Alphabet, Dna, Protein};
use lightmotif::num::{PositiveLength, U1, U16, U2, U32, U4, U48, U64, U7, U8};
use lightmotif::pli::{Pipeline, Score, Stripe};
use lightmotif::pwm::ScoringMatrix;
use lightmotif::scores::StripedScores;
use lightmotif::seq::StripedSequence;
use proptest::prelude::*;
use serde::{Deserialize, Serialize};

use crate::engine::*;

use crate::gen::*;

#[derive(Clone, Copy, Debug, PartialEq, Eq, Serialize, Deserialize)]
pub enum Cols {
    U1,
    U2,
    U4,
    U16,
    U32,
    /// layouts nobody ships a dedicated kernel for: a non-power-of-two (generic only), 8 (generic only), and
    /// 48 / 64 columns, which the SSE2 backend accepts as multiples of 16
    U7,
    U8,
    U48,
    U64,
}

impl Cols {
    pub fn n(self) -> usize {
        match self {
            Cols::U1 => 1,
            Cols::U2 => 2,
            Cols::U4 => 4,
            Cols::U16 => 16,
            Cols::U32 => 32,
            Cols::U7 => 7,
            Cols::U8 => 8,
            Cols::U48 => 48,
            Cols::U64 => 64,
        }
    }
}

#[derive(Clone, Debug, Serialize, Deserialize)]
pub struct Case {
    pub abc: Abc,
    pub cols: Cols,
    pub seq: SeqSpec,
    pub mat: MatSpec,
    /// wrap rows configured beyond the required M-1
    pub extra_wrap: usize,
    /// row sub-range as fractions (a, b) of the R sequence rows, in 1/16ths
    pub sub: (u8, u8),
    /// rows of the score buffer before it is reused by `score_into`
    pub prev_rows: usize,
    /// score the first `first_width` matrix rows into the buffer before the real motif
    /// (same row count, different L-M+1: the buffer's bookkeeping must follow)
    #[serde(default)]
    pub first_width: usize,
    /// 0 = the sequence is striped by the library; k >= 1 = it is built through `StripedSequence::new` from
    /// a hand-filled matrix with k-1 spare rows and arbitrary symbols in the cells that hold no position
    #[serde(default)]
    pub via_new: u8,
    /// (length, seed): the striped buffer held another sequence before, was configured for the motif, and the
    /// sequence of this case was then striped INTO it (generic pipeline for the narrow layouts; `restripe_by` picks
    /// generic / AVX2 / dispatcher for 32 columns) and configured again
    #[serde(default)]
    pub prior_seq: Option<(usize, u64)>,
    #[serde(default)]
    pub restripe_by: u8,
}

pub struct ScoreSub;

fn case_strategy(tier: Tier) -> BoxedStrategy<Case> {
    (abc_strategy(), prop_oneof![2 => Just(Cols::U1), 2 => Just(Cols::U2), 2 => Just(Cols::U4), 6 => Just(Cols::U16), 12 => Just(Cols::U32), 1 => Just(Cols::U7), 1 => Just(Cols::U8), 2 => Just(Cols::U48), 2 => Just(Cols::U64)])
        .prop_flat_map(move |(abc, cols)| {
            let k = abc.k();
            // narrow layouts make many rows: keep their sequences short
            let len = match cols {
                Cols::U1 | Cols::U2 | Cols::U4 | Cols::U7 | Cols::U8 => (0usize..=120).boxed(),
                _ => len_strategy(tier),
            };
            let normal = (seq_strategy(k, len), mat_strategy(abc, width_strategy(if abc == Abc::Dna { 70 } else { 40 }), Regimes::ALL)).boxed();
            // a motif nearly as long as the sequence: 0..40 valid positions, i.e. fewer (or just more) than
            // the sequence has striped rows, on sequences of more than 4 rows
            let long = (100usize..=400, 0usize..=40)
                .prop_flat_map(move |(m, d)| (seq_strategy(k, Just(m - 1 + d).boxed()), mat_strategy(abc, Just(m).boxed(), Regimes::ALL)))
                .boxed();
            let seq_mat = match cols {
                Cols::U16 | Cols::U32 | Cols::U48 | Cols::U64 => prop_oneof![12 => normal, 1 => long].boxed(),
                _ => normal,
            };
            (
                Just(abc),
                Just(cols),
                seq_mat,
                prop_oneof![3 => Just(0usize), 1 => 1usize..=3, 1 => 30usize..=40],
                (0u8..=16, 0u8..=16),
                (prop_oneof![2 => Just(0usize), 1 => 1usize..=50], prop_oneof![1 => Just(0usize), 1 => 1usize..=8], prop_oneof![5 => Just(0u8), 1 => Just(1u8), 1 => 2u8..=4]),
                (prop_oneof![3 => Just(None), 1 => (0usize..=900, any::<u64>()).prop_map(Some)], 0u8..3),
            )
        })
        .prop_map(|(abc, cols, (seq, mat), extra_wrap, sub, (prev_rows, first_width, via_new), (prior_seq, restripe_by))| Case { abc, cols, seq, mat, extra_wrap, sub, prev_rows, first_width, via_new, prior_seq, restripe_by })
        .boxed()
}

impl Sub for ScoreSub {
    type Case = Case;
    fn name(&self) -> &'static str {
        "score"
    }
    fn rule(&self) -> &'static str {
        "alphabet x layout (1, 2, 4, 7, 8, 16, 32, 48, 64 columns) x boundary-biased length x sequence mode x matrix regime (library / finite / -inf / small-int) x width 1..70 (and, 1 case in 13, width 100..400 on a sequence with only 0..40 valid positions) x extra wrap x (one in four) a buffer that held another sequence, was configured, and into which the sequence is then striped by the generic / AVX2 / dispatched pipeline x row sub-range x reused buffer x sequence striped by the library or (2 in 7) built through StripedSequence::new from a hand-filled matrix with arbitrary symbols in the unused cells and 0..3 spare rows; every backend implemented for the layout (generic, sse2, avx2, dispatch forced to each arm) and every read-out path (unstripe, Index, matrix cells, Vec::from, and the iterator from either end and through nth / nth_back / last / len) compared with a linear-sequence reference; sweep = every length 0..70 (thorough ..1100) x 4 widths x both alphabets x 16/32 columns, plus sequences of more than 65536 striped rows; non-trivial = L >= M and R >= 2 (distinct by full case)"
    }
    fn cases(&self, tier: Tier) -> u64 {
        tier.pick(100_000, 3_000_000)
    }
    fn strategy(&self, tier: Tier) -> BoxedStrategy<Case> {
        case_strategy(tier)
    }
    fn sweep(&self, tier: Tier) -> Vec<Case> {
        // every length 0..=70 (quick) / 0..=1100 (thorough) x a few widths x both alphabets, 32 and 16 columns
        let mut out = Vec::new();
        let max = tier.pick(70usize, 1100usize);
        for abc in [Abc::Dna, Abc::Protein] {
            for cols in [Cols::U32, Cols::U16] {
                for m in [1usize, 2, 15, 33] {
                    for l in 0..=max {
                        let k = abc.k();
                        let rows = (0..m)
                            .map(|i| (0..k).map(|j| Fl((((i * 7 + j * 3) % 11) as f32) - 5.0 + if j == k - 1 { -3.0 } else { 0.0 })).collect())
                            .collect();
                        out.push(Case {
                            abc,
                            cols,
                            seq: SeqSpec::Seeded { len: l, seed: (l * 31 + m) as u64, wild_pct: 2 },
                            mat: MatSpec { rows, bg: BgSpec::Uniform, regime: "small-int".into() },
                            extra_wrap: 0,
                            sub: (4, 12),
                            prev_rows: l % 3,
                            first_width: l % 2,
                            via_new: 0,
                            prior_seq: None,
                            restripe_by: 0,
                        });
                    }
                }
            }
        }
        // very long sequences: more than 65536 striped rows (a 16-bit row counter) for 32 and 16 columns
        let longs: &[(Abc, Cols, usize)] = if tier == Tier::Thorough {
            &[(Abc::Dna, Cols::U32, 32 * 65536 + 37), (Abc::Protein, Cols::U32, 32 * 65536 + 5), (Abc::Dna, Cols::U16, 16 * 65536 + 21), (Abc::Dna, Cols::U32, 32 * 65537)]
        } else {
            &[(Abc::Dna, Cols::U32, 32 * 65536 + 37), (Abc::Dna, Cols::U16, 16 * 65536 + 21)]
        };
        for &(abc, cols, l) in longs {
            let k = abc.k();
            let rows = (0..3usize).map(|i| (0..k).map(|j| Fl((((i * 7 + j * 3) % 11) as f32) - 5.0 + if j == k - 1 { -3.0 } else { 0.0 })).collect()).collect();
            out.push(Case {
                abc,
                cols,
                seq: SeqSpec::Seeded { len: l, seed: l as u64, wild_pct: 1 },
                mat: MatSpec { rows, bg: BgSpec::Uniform, regime: "small-int".into() },
                extra_wrap: 0,
                sub: (0, 16),
                prev_rows: 0,
                first_width: 0,
                via_new: 0,
                            prior_seq: None,
                            restripe_by: 0,
            });
        }
        out
    }
    fn check(&self, case: &Case, _cx: &Cx) -> Verdict {
        match (case.abc, case.cols) {
            (Abc::Dna, Cols::U1) => check_narrow::<Dna, U1>(case),
            (Abc::Dna, Cols::U2) => check_narrow::<Dna, U2>(case),
            (Abc::Dna, Cols::U4) => check_narrow::<Dna, U4>(case),
            (Abc::Dna, Cols::U16) => check_16::<Dna>(case),
            (Abc::Dna, Cols::U32) => check_32::<Dna>(case),
            (Abc::Protein, Cols::U1) => check_narrow::<Protein, U1>(case),
            (Abc::Protein, Cols::U2) => check_narrow::<Protein, U2>(case),
            (Abc::Protein, Cols::U4) => check_narrow::<Protein, U4>(case),
            (Abc::Protein, Cols::U16) => check_16::<Protein>(case),
            (Abc::Protein, Cols::U32) => check_32::<Protein>(case),
            (Abc::Dna, Cols::U7) => check_narrow::<Dna, U7>(case),
            (Abc::Dna, Cols::U8) => check_narrow::<Dna, U8>(case),
            (Abc::Protein, Cols::U7) => check_narrow::<Protein, U7>(case),
            (Abc::Protein, Cols::U8) => check_narrow::<Protein, U8>(case),
            (Abc::Dna, Cols::U48) => check_sse2_wide::<Dna, U48>(case),
            (Abc::Dna, Cols::U64) => check_sse2_wide::<Dna, U64>(case),
            (Abc::Protein, Cols::U48) => check_sse2_wide::<Protein, U48>(case),
            (Abc::Protein, Cols::U64) => check_sse2_wide::<Protein, U64>(case),
        }
    }
}

/// Everything a backend produced for one case.
struct Outputs<C: PositiveLength> {
    name: &'static str,
    full: StripedScores<f32, C>,
    into: StripedScores<f32, C>,
    part: StripedScores<f32, C>,
}

struct Prepared<A: Alphabet, C: PositiveLength> {
    idx: Vec<u8>,
    cells: Vec<Vec<f32>>,
    pssm: ScoringMatrix<A>,
    striped: StripedSequence<A, C>,
    rows: usize,
    sub: Range<usize>,
}

/// `stripe_into` an existing buffer through one of the striping backends available for the layout.
fn restripe<A: Alphabet, C: PositiveLength>(by: u8, symbols: &[A::Symbol], buf: &mut StripedSequence<A, C>) {
    use std::any::Any;
    if let Some(wide) = (buf as &mut dyn Any).downcast_mut::<StripedSequence<A, lightmotif::num::U32>>() {
        match by % 3 {
            1 => return Pipeline::<A, _>::avx2().unwrap().stripe_into(symbols, wide),
            2 => return Pipeline::<A, _>::dispatch().stripe_into(symbols, wide),
            _ => {}
        }
    }
    Stripe::<A, C>::stripe_into(&Pipeline::<A, _>::generic(), symbols, buf);
}

fn prepare<A: Alphabet, C: PositiveLength>(case: &Case) -> Prepared<A, C> {
    let idx = case.seq.expand(case.abc.k());
    let cells = case.mat.cells();
    let pssm = build_pssm::<A>(&case.mat);
    let symbols = syms::<A>(&idx);
    let mut striped: StripedSequence<A, C> = if case.via_new > 0 { striped_via_new::<A, C>(&idx, case.via_new as usize - 1, idx.len() as u64 + 17) } else { Pipeline::<A, _>::generic().stripe(&symbols) };
    if let (Some((l0, seed)), 0) = (case.prior_seq, case.via_new) {
        let before = SeqSpec::Seeded { len: l0, seed, wild_pct: 2 }.expand(case.abc.k());
        let mut buf: StripedSequence<A, C> = Pipeline::<A, _>::generic().stripe(&syms::<A>(&before));
        buf.configure_wrap(cells.len() - 1 + case.extra_wrap);
        restripe::<A, C>(case.restripe_by, &symbols, &mut buf);
        striped = buf;
    }
    striped.configure_wrap(cells.len() - 1 + case.extra_wrap);
    let rows = striped.matrix().rows() - striped.wrap();
    let (a, b) = (case.sub.0.min(case.sub.1) as usize, case.sub.0.max(case.sub.1) as usize);
    let sub = (a * rows / 16)..(b * rows / 16);
    Prepared { idx, cells, pssm, striped, rows, sub }
}

fn run_backend<A: Alphabet, C: PositiveLength, P: Score<f32, A, C>>(
    name: &'static str,
    pli: &P,
    p: &Prepared<A, C>,
    prev_rows: usize,
    first_width: usize,
) -> Outputs<C> {
    let full = pli.score(&p.pssm, &p.striped);
    let mut into = StripedScores::<f32, C>::empty();
    into.resize(prev_rows, prev_rows * 3);
    for r in 0..prev_rows {
        for c in 0..C::USIZE {
            into.matrix_mut()[r][c] = 12345.0;
        }
    }
    if first_width > 0 && first_width < p.cells.len() {
        // a narrower motif first: same sequence rows, more valid positions
        let mut dm = lightmotif::dense::DenseMatrix::<f32, A::K>::new(first_width);
        for i in 0..first_width {
            dm[i].copy_from_slice(&p.cells[i]);
        }
        let narrow = ScoringMatrix::<A>::new(p.pssm.background().clone(), dm);
        pli.score_into(&narrow, &p.striped, &mut into);
    }
    pli.score_into(&p.pssm, &p.striped, &mut into);
    let mut part = StripedScores::<f32, C>::empty();
    pli.score_rows_into(&p.pssm, &p.striped, p.sub.clone(), &mut part);
    Outputs { name, full, into, part }
}

fn same(a: f32, b: f32) -> bool {
    a == b || (a.is_nan() && b.is_nan())
}

fn compare<A: Alphabet, C: PositiveLength>(case: &Case, p: &Prepared<A, C>, outs: &[Outputs<C>], info: &mut CaseInfo) -> Option<Failure> {
    let l = p.idx.len();
    let m = p.cells.len();
    let n = if l >= m { l - m + 1 } else { 0 };
    let r32 = ref_scores_f32(&p.cells, &p.idx);
    let r64 = ref_scores_f64(&p.cells, &p.idx);
    let rows = p.rows;
    debug_assert_eq!(r32.len(), n);

    for o in outs {
        // number of values, on every read-out path
        let un = o.full.unstripe();
        if un.len() != n {
            return Some(Failure::new(format!("{}:count", o.name), format!("unstripe() gives {} values, expected L-M+1 = {}", un.len(), n)));
        }
        if o.full.iter().len() != n || o.full.iter().count() != n {
            return Some(Failure::new(format!("{}:count", o.name), format!("iter() gives {} values, expected {}", o.full.iter().count(), n)));
        }
        if n == 0 {
            // "none when L < M": empty on every observable - no position, no row, nothing for max / argmax /
            // threshold to look at - for a fresh result and for a reused buffer alike
            for (what, sc) in [("score", &o.full), ("score_into", &o.into)] {
                if !sc.is_empty() || sc.max_index() != 0 || sc.matrix().rows() != 0 {
                    return Some(Failure::new(
                        format!("{}:not-empty-for-L<M", o.name),
                        format!("{}: L={} < M={} but is_empty() = {}, max_index() = {}, matrix().rows() = {}", what, l, m, sc.is_empty(), sc.max_index(), sc.matrix().rows()),
                    ));
                }
            }
            continue;
        }
        if o.full.max_index() != n {
            return Some(Failure::new(format!("{}:count", o.name), format!("max_index {} != {}", o.full.max_index(), n)));
        }
        if o.full.matrix().rows() != rows {
            return Some(Failure::new(format!("{}:rows", o.name), format!("{} score rows, expected {}", o.full.matrix().rows(), rows)));
        }
        for i in 0..n {
            let v = un[i];
            info.comparisons += 1;
            // defined value: same f32 left-to-right sum on every backend
            if !same(v, r32[i]) {
                return Some(Failure::new(
                    format!("{}:value", o.name),
                    format!("position {}: got {:?}, f32 left-to-right reference {:?} (exact {:?})", i, v, r32[i], r64[i].0),
                ));
            }
            // within summation error of the exact sum; -inf exactly when a term is
            let (ex, abs, inf) = r64[i];
            if inf {
                if v != f32::NEG_INFINITY {
                    return Some(Failure::new(format!("{}:neginf", o.name), format!("position {}: a term is -inf but score is {:?}", i, v)));
                }
            } else {
                let bound = (m as f64) * 2f64.powi(-23) * abs + 1e-30;
                if !((v as f64 - ex).abs() <= bound) {
                    return Some(Failure::new(
                        format!("{}:error-bound", o.name),
                        format!("position {}: got {:?}, exact {:?}, bound {:e}", i, v, ex, bound),
                    ));
                }
            }
            // other read-out paths
            if !same(o.full[i], v) || !same(o.full.matrix()[i % rows][i / rows], v) {
                return Some(Failure::new(format!("{}:readout", o.name), format!("position {}: Index / matrix() disagree with unstripe()", i)));
            }
        }
        // the iterator of the scores read from either end, and through the positional methods an iterator may
        // override, yields the same values as a slice of the L-M+1 scores does
        {
            let flat: &[f32] = &un;
            let fwd: Vec<f32> = o.full.iter().copied().collect();
            let mut bwd: Vec<f32> = o.full.iter().rev().copied().collect();
            bwd.reverse();
            let eq = |a: &[f32], b: &[f32]| a.len() == b.len() && a.iter().zip(b.iter()).all(|(x, y)| same(*x, *y));
            if !eq(&fwd, flat) || !eq(&bwd, flat) {
                return Some(Failure::new(format!("{}:readout", o.name), "iter() / iter().rev() disagree with unstripe()".to_string()));
            }
            let k = (l + m) % (n + 1);
            let (mut a, mut b) = (o.full.iter(), flat.iter());
            let s = |x: Option<&f32>| x.map(|v| v.to_bits());
            if s(a.next_back()) != s(b.next_back()) || s(a.nth(k / 2)) != s(b.nth(k / 2)) || a.len() != b.len() || a.size_hint() != b.size_hint() || s(a.nth_back(k / 3)) != s(b.nth_back(k / 3)) || a.len() != b.len() || s(a.next()) != s(b.next()) || s(a.last()) != s(b.last()) {
                return Some(Failure::new(format!("{}:readout", o.name), format!("iter(): next_back / nth({}) / nth_back({}) / next / last over {} scores disagree with a slice iterator", k / 2, k / 3, n)));
            }
        }
        // score_into on a reused buffer == score
        if o.into.max_index() != n || o.into.matrix().rows() != rows {
            return Some(Failure::new(format!("{}:score_into", o.name), "reused buffer has wrong dimensions".to_string()));
        }
        for i in 0..n {
            if !same(o.into[i], un[i]) {
                return Some(Failure::new(format!("{}:score_into", o.name), format!("position {}: reused buffer {:?} != fresh {:?}", i, o.into[i], un[i])));
            }
        }
        // sub-range == rows a..b of the full scan
        if p.sub.is_empty() {
            if !o.part.is_empty() {
                return Some(Failure::new(format!("{}:subrange", o.name), "empty row range gives non-empty scores".to_string()));
            }
        } else {
            if o.part.matrix().rows() != p.sub.len() {
                return Some(Failure::new(
                    format!("{}:subrange", o.name),
                    format!("row range {:?} gives {} rows", p.sub, o.part.matrix().rows()),
                ));
            }
            // the flat read-outs of a block buffer are its cells in column-major order: as many as iter()
            // yields, never more than the block holds
            let prow = o.part.matrix().rows();
            let flat = o.part.unstripe();
            let by_iter: Vec<f32> = o.part.iter().cloned().collect();
            let by_from: Vec<f32> = Vec::from(o.part.clone());
            if flat.len() != by_iter.len() || by_from.len() != by_iter.len() || by_iter.len() > prow * C::USIZE {
                return Some(Failure::new(
                    format!("{}:subrange-readout", o.name),
                    format!("rows {:?}: unstripe() gives {} values, Vec::from {} values, iter() {} values; the block has {} cells", p.sub, flat.len(), by_from.len(), by_iter.len(), prow * C::USIZE),
                ));
            }
            for i in 0..by_iter.len() {
                let cell = o.part.matrix()[i % prow][i / prow];
                if !same(flat[i], cell) || !same(by_iter[i], cell) || !same(by_from[i], cell) {
                    return Some(Failure::new(format!("{}:subrange-readout", o.name), format!("rows {:?}: flat element {} is not the cell ({}, {}) of the block", p.sub, i, i % prow, i / prow)));
                }
            }
            for (rr, srow) in p.sub.clone().enumerate() {
                for c in 0..C::USIZE {
                    let pos = c * rows + srow;
                    if pos < n {
                        info.comparisons += 1;
                        if !same(o.part.matrix()[rr][c], un[pos]) {
                            return Some(Failure::new(
                                format!("{}:subrange", o.name),
                                format!("rows {:?}: cell ({},{}) = {:?} but position {} scores {:?}", p.sub, rr, c, o.part.matrix()[rr][c], pos, un[pos]),
                            ));
                        }
                    }
                }
            }
        }
    }
    // score_position (sampled for long sequences)
    if n > 0 {
        let step = (n / 200).max(1);
        let mut i = 0;
        while i < n {
            let v = p.pssm.score_position(&p.striped, i);
            if !same(v, r32[i]) {
                return Some(Failure::new("score_position:value", format!("position {}: {:?} != {:?}", i, v, r32[i])));
            }
            i += step;
        }
        let v = p.pssm.score_position(&p.striped, n - 1);
        if !same(v, r32[n - 1]) {
            return Some(Failure::new("score_position:value", format!("last position {}: {:?} != {:?}", n - 1, v, r32[n - 1])));
        }
    }
    let _ = case;
    None
}

fn classify<C: PositiveLength>(case: &Case, l: usize, m: usize, rows: usize, sub: &Range<usize>, info: &mut CaseInfo) {
    info.nontrivial = l >= m && rows >= 2;
    info.class_if(l < m, "L<M");
    info.class_if(l == m, "L=M");
    info.class_if(l >= m && l - m + 1 < rows && rows > 4, "fewer-valid-positions-than-rows(R>4)");
    info.class_if(l >= 1024, "L>=1024");
    info.class_if(l >= 8192, "L>=8192");
    info.class_if(rows > 65536, "more-than-65536-rows");
    info.class_if(case.abc == Abc::Protein, "protein");
    info.class_if(case.abc == Abc::Dna, "dna");
    info.class_if(!sub.is_empty() && sub.len() < rows, "proper-subrange");
    info.class_if(sub.is_empty(), "empty-subrange");
    info.class_if(m - 1 + case.extra_wrap > rows, "wrap>R");
    info.class_if(case.prev_rows > 0, "reused-buffer");
    info.class_if(case.prior_seq.is_some() && case.via_new == 0, "striped-into-a-buffer-configured-for-another-sequence");
    info.class_if(case.via_new == 1, "built-by-StripedSequence::new(arbitrary-padding)");
    info.class_if(case.via_new > 1, "built-by-StripedSequence::new(spare-rows)");
    info.class(match case.cols {
        Cols::U1 => "C=1",
        Cols::U2 => "C=2",
        Cols::U4 => "C=4",
        Cols::U16 => "C=16",
        Cols::U32 => "C=32",
        Cols::U7 => "C=7",
        Cols::U8 => "C=8",
        Cols::U48 => "C=48",
        Cols::U64 => "C=64",
    });
    info.class(match case.mat.regime.as_str() {
        "library" => "mat:library",
        "library-p0" => "mat:-inf-cells",
        "finite" => "mat:finite",
        "small-int" => "mat:small-int",
        _ => "mat:other",
    });
    let c = C::USIZE;
    info.class(match l % c {
        0 => "Lmod=0",
        1 => "Lmod=1",
        x if x == c - 1 => "Lmod=C-1",
        _ => "Lmod=other",
    });
}

fn check_narrow<A: Alphabet, C: PositiveLength>(case: &Case) -> Verdict {
    if case.mat.m() == 0 {
        return Verdict::Pass(CaseInfo::new());
    }
    let p = prepare::<A, C>(case);
    let outs = vec![run_backend("generic", &Pipeline::<A, _>::generic(), &p, case.prev_rows, case.first_width)];
    let mut info = CaseInfo::new();
    classify::<C>(case, p.idx.len(), p.cells.len(), p.rows, &p.sub, &mut info);
    match compare(case, &p, &outs, &mut info) {
        Some(f) => Verdict::Fail(f),
        None => Verdict::Pass(info),
    }
}

/// 48 / 64 columns: the generic and the SSE2 backend (any multiple of 16 columns).
fn check_sse2_wide<A: Alphabet, C: PositiveLength>(case: &Case) -> Verdict
where
    Pipeline<A, lightmotif::pli::platform::Sse2>: Score<f32, A, C>,
{
    if case.mat.m() == 0 {
        return Verdict::Pass(CaseInfo::new());
    }
    let p = prepare::<A, C>(case);
    let outs = vec![
        run_backend("generic", &Pipeline::<A, _>::generic(), &p, case.prev_rows, case.first_width),
        run_backend("sse2", &Pipeline::<A, _>::sse2().unwrap(), &p, case.prev_rows, case.first_width),
    ];
    let mut info = CaseInfo::new();
    classify::<C>(case, p.idx.len(), p.cells.len(), p.rows, &p.sub, &mut info);
    info.class("backend:sse2");
    match compare(case, &p, &outs, &mut info) {
        Some(f) => Verdict::Fail(f),
        None => Verdict::Pass(info),
    }
}

fn check_16<A: Alphabet>(case: &Case) -> Verdict {
    if case.mat.m() == 0 {
        return Verdict::Pass(CaseInfo::new());
    }
    let p = prepare::<A, U16>(case);
    let outs = vec![
        run_backend("generic", &Pipeline::<A, _>::generic(), &p, case.prev_rows, case.first_width),
        run_backend("sse2", &Pipeline::<A, _>::sse2().unwrap(), &p, case.prev_rows, case.first_width),
    ];
    let mut info = CaseInfo::new();
    classify::<U16>(case, p.idx.len(), p.cells.len(), p.rows, &p.sub, &mut info);
    info.class("backend:sse2");
    match compare(case, &p, &outs, &mut info) {
        Some(f) => Verdict::Fail(f),
        None => Verdict::Pass(info),
    }
}

fn check_32<A: Alphabet>(case: &Case) -> Verdict {
    if case.mat.m() == 0 {
        return Verdict::Pass(CaseInfo::new());
    }
    let p = prepare::<A, U32>(case);
    let mut outs = vec![
        run_backend("generic", &Pipeline::<A, _>::generic(), &p, case.prev_rows, case.first_width),
        run_backend("sse2", &Pipeline::<A, _>::sse2().unwrap(), &p, case.prev_rows, case.first_width),
        run_backend("avx2", &Pipeline::<A, _>::avx2().unwrap(), &p, case.prev_rows, case.first_width),
    ];
    for arm in ARMS {
        let _g = arm.force();
        let name = match arm {
            Arm::Generic => "dispatch[generic]",
            Arm::Sse2 => "dispatch[sse2]",
            Arm::Avx2 => "dispatch[avx2]",
        };
        let mut o = run_backend(name, &Pipeline::<A, _>::dispatch(), &p, case.prev_rows, case.first_width);
        // the convenience entry point users call
        let conv = p.pssm.score(&p.striped);
        if conv.max_index() != o.full.max_index() || conv.unstripe().iter().zip(o.full.unstripe().iter()).any(|(a, b)| !same(*a, *b)) {
            return Verdict::Fail(Failure::new(format!("{}:ScoringMatrix::score", name), "differs from Pipeline::dispatch().score".to_string()));
        }
        // by-value read-out
        let v: Vec<f32> = Vec::from(conv.clone());
        let un = conv.unstripe();
        if v.len() != un.len() || v.iter().zip(un.iter()).any(|(a, b)| !same(*a, *b)) {
            return Verdict::Fail(Failure::new(format!("{}:Vec::from(scores)", name), "differs from unstripe()".to_string()));
        }
        o.name = name;
        outs.push(o);
    }
    let mut info = CaseInfo::new();
    classify::<U32>(case, p.idx.len(), p.cells.len(), p.rows, &p.sub, &mut info);
    info.class("backend:avx2+sse2+dispatch-arms");
    match compare(case, &p, &outs, &mut info) {
        Some(f) => Verdict::Fail(f),
        None => Verdict::Pass(info),
    }
}

pub fn property() -> Property {
    Property {
        id: "C01",
        subs: vec![Box::new(ScoreSub)],
        assumptions: vec![
            "NEON backend is not compiled on this x86-64 host and is not decided",
            "scoring is called in contract: wrap rows >= M-1 configured before scoring, M >= 1",
            "matrices hold finite or -inf cells (no NaN, no +inf)",
            "'the score' is the f32 left-to-right sum from 0.0; it is additionally bounded against the exact f64 sum by M*2^-23*sum|term|",
            "cells past the last valid position are unspecified and not compared",
        ],
    }
}
