//! C08 — 8-bit discretised scores never under-estimate the real score.

use lightmotif::abc::{Alphabet, Dna, Protein};
use lightmotif::num::{PositiveLength, U32, U48, U64};
use lightmotif::pli::{Pipeline, Score, Stripe};
use lightmotif::pwm::DiscreteMatrix;
use lightmotif::scores::StripedScores;
use lightmotif::seq::StripedSequence;
use proptest::prelude::*;
use serde::{Deserialize, Serialize};

use crate::engine::*;
use crate::gen::*;

/// Signature suffix of the recorded finding: plain `+=` on u8 in the generic kernel.
pub const WRAP_CLASS: &str = "u8-sum>255";

#[derive(Clone, Debug, Serialize, Deserialize)]
pub enum Embed {
    None,
    /// the maximum-scoring word (arg-max symbol of each row, wildcard excluded)
    Consensus(usize),
    /// the minimum-scoring word
    Anti(usize),
    /// the maximum-scoring word over the WHOLE alphabet: the wildcard where its (finite) cell beats every
    /// symbol's - a window that scores above `max_score()`, which only looks at the real symbols
    Best(usize),
}

#[derive(Clone, Debug, Serialize, Deserialize)]
pub struct Case {
    pub abc: Abc,
    pub seq: SeqSpec,
    pub mat: MatSpec,
    pub embed: Embed,
    pub extra_wrap: usize,
    /// thresholds as (position index, delta) pairs: t = r[pos] + delta * 1e-3
    pub thresholds: Vec<(usize, i8)>,
    /// what is done to the wildcard column (the property only asks the NON-wildcard entries to be finite):
    /// 0 = left as generated; 1 = +inf in every third row; 2 = every row made constant over the real
    /// symbols with a finite wildcard cell above it; 3 = real cells within 1e-30 of each other and a
    /// wildcard cell of 1e10
    #[serde(default)]
    pub wild: u8,
}

fn effective_mat(case: &Case) -> MatSpec {
    let mut mat = case.mat.clone();
    let k = case.abc.k();
    for (i, r) in mat.rows.iter_mut().enumerate() {
        match case.wild {
            1 => {
                if i % 3 == 0 {
                    r[k - 1] = Fl(f32::INFINITY);
                }
            }
            2 => {
                let v = r[0].0;
                for x in r[..k - 1].iter_mut() {
                    *x = Fl(v);
                }
                r[k - 1] = Fl(v + 1.0 + (i % 4) as f32);
            }
            3 => {
                for (j, x) in r[..k - 1].iter_mut().enumerate() {
                    *x = Fl(j as f32 * 1e-31);
                }
                r[k - 1] = Fl(1e10);
            }
            _ => {}
        }
    }
    mat
}

pub fn embed_word(cells: &[Vec<f32>], k: usize, e: &Embed, idx: &mut Vec<u8>) {
    let m = cells.len();
    let (at, want_max) = match e {
        Embed::None => return,
        Embed::Consensus(p) => (*p, true),
        Embed::Anti(p) => (*p, false),
        Embed::Best(p) => (*p, true),
    };
    if idx.len() < m {
        return;
    }
    let at = at % (idx.len() - m + 1);
    for j in 0..m {
        let row = &cells[j][..k - 1];
        let mut best = 0;
        for s in 1..k - 1 {
            if (want_max && row[s] > row[best]) || (!want_max && row[s] < row[best]) {
                best = s;
            }
        }
        if matches!(e, Embed::Best(_)) && cells[j][k - 1].is_finite() && cells[j][k - 1] > row[best] {
            best = k - 1;
        }
        idx[at + j] = best as u8;
    }
}

pub struct Over;

/// The open finding KF06 in a build with arithmetic overflow checks: the plain `+=` on u8 of the scalar kernel
/// (pli/mod.rs) and of DiscreteMatrix::score_position (pwm/mod.rs) panics where a release build wraps around.
pub fn is_u8_add_overflow(loc: &str, msg: &str) -> bool {
    msg.contains("attempt to add with overflow") && (loc.contains("lightmotif/src/pli/mod.rs") || loc.contains("lightmotif/src/pwm/mod.rs"))
}

/// Does any cell the scalar kernel computes - valid positions AND the padding positions past the end of the
/// sequence, which it scores all the same - add up to more than 255?
pub fn any_scored_cell_overflows<A: Alphabet, C: PositiveLength>(dm: &DiscreteMatrix<A>, striped: &StripedSequence<A, C>) -> bool {
    use lightmotif::abc::Symbol;
    let m = dm.matrix().rows();
    let rows = striped.matrix().rows() - striped.wrap();
    if striped.matrix().rows() < rows + m.saturating_sub(1) {
        return false;
    }
    for row in 0..rows {
        for col in 0..C::USIZE {
            let mut sum = 0u32;
            for j in 0..m {
                sum += dm.matrix()[j][striped.matrix()[row + j][col].as_index()] as u32;
            }
            if sum > 255 {
                return true;
            }
        }
    }
    false
}

/// Is this harness (and with it the library) compiled with arithmetic overflow checks?
pub fn overflow_checked_build() -> bool {
    static FLAG: std::sync::OnceLock<bool> = std::sync::OnceLock::new();
    *FLAG.get_or_init(|| {
        let hook = std::panic::take_hook();
        std::panic::set_hook(Box::new(|_| {}));
        let r = std::panic::catch_unwind(|| std::hint::black_box(255u8) + std::hint::black_box(1u8)).is_err();
        std::panic::set_hook(hook);
        r
    })
}

/// Score all positions with a scalar-kernel backend. `Ok(None)`: the kernel panicked on the u8 addition, some
/// window of the case sums above 255 and that class is an excluded known finding (the backend is skipped for
/// this case); `Err`: a failure to report.
fn scalar_scores<C: PositiveLength>(name: &str, any_overflow: bool, cx: &Cx, f: impl FnOnce() -> StripedScores<u8, C>) -> Result<Option<StripedScores<u8, C>>, Failure> {
    match catch_inner(f) {
        Ok(sc) => Ok(Some(sc)),
        Err((loc, msg)) => {
            let sig = format!("{}:underestimate:{}", name, WRAP_CLASS);
            if is_u8_add_overflow(&loc, &msg) && any_overflow {
                if cx.is_excluded(&sig) {
                    Ok(None)
                } else {
                    Err(Failure::new(sig, format!("a scored cell's (valid or padding position) discretised cells sum above 255 and the scalar kernel panicked at {}: {} (a build without overflow checks wraps around instead)", loc, msg)))
                }
            } else {
                Err(Failure::new(panic_sig(&loc, &msg), format!("{}: panicked at {}: {}", name, loc, msg)))
            }
        }
    }
}

fn strategy(tier: Tier) -> BoxedStrategy<Case> {
    prop_oneof![4 => Just(Abc::Dna), 1 => Just(Abc::Protein)]
        .prop_flat_map(move |abc| {
            let len = prop_oneof![6 => 0usize..=300, 2 => len_strategy(tier)].boxed();
            let width = prop_oneof![1 => 1usize..=9, 4 => 10usize..=40].boxed();
            (
                Just(abc),
                seq_strategy(abc.k(), len),
                mat_strategy(abc, width, Regimes { library: true, finite: true, neginf: false, small_int: true, near_tie: true }),
                prop_oneof![2 => Just(Embed::None), 3 => any::<usize>().prop_map(Embed::Consensus), 1 => any::<usize>().prop_map(Embed::Anti), 1 => any::<usize>().prop_map(Embed::Best)],
                prop_oneof![3 => Just(0usize), 1 => 1usize..=33],
                proptest::collection::vec((any::<usize>(), -2i8..=2), 0..4),
                prop_oneof![12 => Just(0u8), 1 => Just(1u8), 1 => Just(2u8), 1 => Just(3u8)],
            )
        })
        .prop_map(|(abc, seq, mat, embed, extra_wrap, thresholds, wild)| Case { abc, seq, mat, embed, extra_wrap, thresholds, wild })
        .boxed()
}

struct Ctx<'a> {
    cx: &'a Cx,
    info: &'a mut CaseInfo,
    excluded_positions: u64,
}

/// Compare one backend's bytes with the byte image of the real scores.
fn judge(
    name: &str,
    bytes: &dyn Fn(usize) -> u8,
    dm_scale: &dyn Fn(f32) -> u8,
    r32: &[f32],
    sums: &[u32],
    thresholds: &[f32],
    wraps: bool,
    c: &mut Ctx,
) -> Option<Failure> {
    let sig_wrap = format!("{}:underestimate:{}", name, WRAP_CLASS);
    for i in 0..r32.len() {
        if r32[i].is_nan() {
            continue;
        }
        if wraps && sums[i] > 255 && c.cx.is_excluded(&sig_wrap) {
            c.excluded_positions += 1;
            continue;
        }
        let b = bytes(i);
        let img = dm_scale(r32[i]);
        c.info.comparisons += 1;
        if b < img {
            let class = if sums[i] > 255 { WRAP_CLASS } else { "u8-sum<=255" };
            return Some(Failure::new(
                format!("{}:underestimate:{}", name, class),
                format!(
                    "position {}: 8-bit score {} < scale(real score {:?}) = {} (exact integer cell sum {})",
                    i, b, r32[i], img, sums[i]
                ),
            ));
        }
        for &t in thresholds {
            if r32[i] >= t && b < dm_scale(t) {
                let class = if sums[i] > 255 { WRAP_CLASS } else { "u8-sum<=255" };
                return Some(Failure::new(
                    format!("{}:lost-hit:{}", name, class),
                    format!("position {}: real score {:?} >= t = {:?} but 8-bit score {} < scale(t) = {}", i, r32[i], t, b, dm_scale(t)),
                ));
            }
        }
    }
    None
}

fn run<A: Alphabet>(case: &Case, cx: &Cx, info: &mut CaseInfo) -> (Option<Failure>, u64)
where
    Pipeline<A, lightmotif::pli::platform::Generic>: Score<u8, A, U32>,
{
    let k = case.abc.k();
    let mat = effective_mat(case);
    let cells = mat.cells();
    let m = cells.len();
    let mut idx = case.seq.expand(k);
    embed_word(&cells, k, &case.embed, &mut idx);
    let pssm = build_pssm::<A>(&mat);
    let dm: DiscreteMatrix<A> = pssm.to_discrete();
    // the conversion traits are the same discretisation
    for (name, other) in [("From<&ScoringMatrix>", DiscreteMatrix::<A>::from(&pssm)), ("From<ScoringMatrix>", DiscreteMatrix::<A>::from(pssm.clone()))] {
        let cells_differ = (0..m).any(|i| other.matrix()[i][..] != dm.matrix()[i][..]);
        if other.matrix().rows() != dm.matrix().rows() || cells_differ || other.scale(1.5) != dm.scale(1.5) || other.unscale(7).to_bits() != dm.unscale(7).to_bits() {
            return (Some(Failure::new(format!("DiscreteMatrix::{}", name), "differs from to_discrete()".to_string())), 0);
        }
    }
    let symbols = syms::<A>(&idx);
    let mut striped: StripedSequence<A, U32> = Pipeline::<A, _>::generic().stripe(&symbols);
    striped.configure_wrap(m - 1 + case.extra_wrap);
    let r32 = ref_scores_f32(&cells, &idx);
    let n = r32.len();
    // exact integer sums of the discretised cells per window
    let dcells: Vec<Vec<u32>> = (0..m).map(|i| dm.matrix()[i].iter().map(|&x| x as u32).collect()).collect();
    let sums: Vec<u32> = (0..n).map(|i| (0..m).map(|j| dcells[j][idx[i + j] as usize]).sum()).collect();
    let rowmax: u32 = dcells.iter().map(|r| *r[..k - 1].iter().max().unwrap()).sum();
    let thresholds: Vec<f32> = if n > 0 {
        case.thresholds.iter().map(|&(p, d)| r32[p % n] + d as f32 * 1e-3).filter(|t| t.is_finite()).collect()
    } else {
        Vec::new()
    };
    info.nontrivial = sums.iter().any(|&s| s > 255);
    info.class_if(rowmax > 255, "sum-of-row-max>255");
    info.class_if(rowmax <= 255, "sum-of-row-max<=255");
    info.class_if(matches!(case.embed, Embed::Consensus(_)) && n > 0, "consensus-present");
    info.class_if(matches!(case.embed, Embed::Anti(_)) && n > 0, "anti-consensus-present");
    info.class_if((0..n).any(|i| idx[i..i + m].contains(&((k - 1) as u8))), "wildcard-window");
    info.class_if(n == 0, "L<M");
    if n == 0 {
        return (None, 0);
    }
    let scale = |s: f32| dm.scale(s);
    let mut c = Ctx { cx, info, excluded_positions: 0 };

    // DiscreteMatrix::score_position (plain += on u8)
    {
        let sig = format!("DiscreteMatrix::score_position:underestimate:{}", WRAP_CLASS);
        let excl = cx.is_excluded(&sig);
        // in a release build the += wraps; calling it on a window that overflows is the finding itself
        // (with overflow checks on it panics instead: counted as the worst under-estimate, 0)
        let f = |i: usize| match catch_inner(|| dm.score_position(&striped, i)) {
            Ok(b) => b,
            Err((loc, msg)) if is_u8_add_overflow(&loc, &msg) && sums[i] > 255 => 0,
            Err((loc, msg)) => panic!("{}: {}", loc, msg),
        };
        let _ = excl;
        if let Some(fl) = judge("DiscreteMatrix::score_position", &f, &scale, &r32, &sums, &thresholds, true, &mut c) {
            return (Some(fl), c.excluded_positions);
        }
    }
    // generic kernel
    {
        match scalar_scores("generic", any_scored_cell_overflows(&dm, &striped), cx, || Pipeline::<A, _>::generic().score(&dm, &striped)) {
            Err(fl) => return (Some(fl), c.excluded_positions),
            Ok(None) => c.excluded_positions += sums.iter().filter(|&&x| x > 255).count() as u64,
            Ok(Some(sc)) => {
                if sc.max_index() != n {
                    return (Some(Failure::new("generic:count", format!("u8 scores have max_index {} != {}", sc.max_index(), n))), 0);
                }
                let f = |i: usize| sc[i];
                if let Some(fl) = judge("generic", &f, &scale, &r32, &sums, &thresholds, true, &mut c) {
                    return (Some(fl), c.excluded_positions);
                }
            }
        }
    }
    (None, c.excluded_positions)
}

/// The generic and the SSE2 pipeline on a layout of `C` columns (48 / 64: SSE2 accepts any multiple of 16).
fn run_other_layout<A: Alphabet, C: PositiveLength>(case: &Case, cx: &Cx, info: &mut CaseInfo) -> (Option<Failure>, u64)
where
    Pipeline<A, lightmotif::pli::platform::Generic>: Score<u8, A, C>,
    Pipeline<A, lightmotif::pli::platform::Sse2>: Score<u8, A, C>,
{
    let k = case.abc.k();
    let mat = effective_mat(case);
    let cells = mat.cells();
    let m = cells.len();
    let mut idx = case.seq.expand(k);
    embed_word(&cells, k, &case.embed, &mut idx);
    let pssm = build_pssm::<A>(&mat);
    let dm: DiscreteMatrix<A> = pssm.to_discrete();
    let symbols = syms::<A>(&idx);
    let mut striped: StripedSequence<A, C> = Pipeline::<A, _>::generic().stripe(&symbols);
    striped.configure_wrap(m - 1 + case.extra_wrap);
    let r32 = ref_scores_f32(&cells, &idx);
    let n = r32.len();
    if n == 0 {
        return (None, 0);
    }
    let dcells: Vec<Vec<u32>> = (0..m).map(|i| dm.matrix()[i].iter().map(|&x| x as u32).collect()).collect();
    let sums: Vec<u32> = (0..n).map(|i| (0..m).map(|j| dcells[j][idx[i + j] as usize]).sum()).collect();
    let thresholds: Vec<f32> = case.thresholds.iter().map(|&(p, d)| r32[p % n] + d as f32 * 1e-3).filter(|t| t.is_finite()).collect();
    let scale = |s: f32| dm.scale(s);
    let any = any_scored_cell_overflows(&dm, &striped);
    let mut c = Ctx { cx, info, excluded_positions: 0 };
    // the signatures of the known finding name the 32-column entry points; other layouts use their own names
    // but the same input class, and are skipped / reported through the generic kernel's signature
    for (name, which) in [("generic", 0u8), ("sse2", 1u8)] {
        let known = format!("generic:underestimate:{}", WRAP_CLASS);
        let res = catch_inner(|| -> StripedScores<u8, C> {
            if which == 0 {
                Pipeline::<A, _>::generic().score(&dm, &striped)
            } else {
                Pipeline::<A, _>::sse2().unwrap().score(&dm, &striped)
            }
        });
        let sc = match res {
            Ok(sc) => sc,
            Err((loc, msg)) => {
                if is_u8_add_overflow(&loc, &msg) && any && cx.is_excluded(&known) {
                    c.excluded_positions += 1;
                    continue;
                }
                let sig = if is_u8_add_overflow(&loc, &msg) && any { known } else { panic_sig(&loc, &msg) };
                return (Some(Failure::new(sig, format!("{} on {} columns: panicked at {}: {}", name, C::USIZE, loc, msg))), c.excluded_positions);
            }
        };
        if sc.max_index() != n {
            return (Some(Failure::new(format!("{}[C={}]:count", name, C::USIZE), format!("u8 scores have max_index {} != {}", sc.max_index(), n))), c.excluded_positions);
        }
        let f = |i: usize| sc[i];
        // same oracle; the known wrap of the scalar kernel (sums above 255) is excluded under the generic signature
        if let Some(mut fl) = judge("generic", &f, &scale, &r32, &sums, &thresholds, true, &mut c) {
            if !fl.sig.ends_with(WRAP_CLASS) {
                fl.sig = fl.sig.replacen("generic", &format!("{}[C={}]", name, C::USIZE), 1);
            }
            fl.msg = format!("{} on {} columns: {}", name, C::USIZE, fl.msg);
            return (Some(fl), c.excluded_positions);
        }
    }
    (None, c.excluded_positions)
}

fn run_dna_simd(case: &Case, cx: &Cx, info: &mut CaseInfo) -> (Option<Failure>, u64) {
    let k = 5;
    let mat = effective_mat(case);
    let cells = mat.cells();
    let m = cells.len();
    let mut idx = case.seq.expand(k);
    embed_word(&cells, k, &case.embed, &mut idx);
    let pssm = build_pssm::<Dna>(&mat);
    let dm = pssm.to_discrete();
    let symbols = syms::<Dna>(&idx);
    let mut striped: StripedSequence<Dna, U32> = Pipeline::<Dna, _>::generic().stripe(&symbols);
    striped.configure_wrap(m - 1 + case.extra_wrap);
    // a clone's buffer ends right after its last row (no spare capacity): what the
    // sanitizer runs of C06 need to see an over-read of the SIMD kernels
    let striped = striped.clone();
    let r32 = ref_scores_f32(&cells, &idx);
    let n = r32.len();
    if n == 0 {
        return (None, 0);
    }
    let dcells: Vec<Vec<u32>> = (0..m).map(|i| dm.matrix()[i].iter().map(|&x| x as u32).collect()).collect();
    let sums: Vec<u32> = (0..n).map(|i| (0..m).map(|j| dcells[j][idx[i + j] as usize]).sum()).collect();
    let thresholds: Vec<f32> = case.thresholds.iter().map(|&(p, d)| r32[p % n] + d as f32 * 1e-3).filter(|t| t.is_finite()).collect();
    let scale = |s: f32| dm.scale(s);
    let mut c = Ctx { cx, info, excluded_positions: 0 };
    {
        let sc: StripedScores<u8, U32> = Pipeline::<Dna, _>::avx2().unwrap().score(&dm, &striped);
        let f = |i: usize| sc[i];
        if let Some(fl) = judge("avx2", &f, &scale, &r32, &sums, &thresholds, false, &mut c) {
            return (Some(fl), c.excluded_positions);
        }
    }
    for arm in ARMS {
        let _g = arm.force();
        let name = match arm {
            Arm::Generic => "dispatch[generic]",
            Arm::Sse2 => "dispatch[sse2]",
            Arm::Avx2 => "dispatch[avx2]",
        };
        match scalar_scores(name, any_scored_cell_overflows(&dm, &striped), cx, || Pipeline::<Dna, _>::dispatch().score(&dm, &striped)) {
            Err(fl) => return (Some(fl), c.excluded_positions),
            Ok(None) => c.excluded_positions += sums.iter().filter(|&&x| x > 255).count() as u64,
            Ok(Some(sc)) => {
                let f = |i: usize| sc[i];
                if let Some(fl) = judge(name, &f, &scale, &r32, &sums, &thresholds, arm != Arm::Avx2, &mut c) {
                    return (Some(fl), c.excluded_positions);
                }
            }
        }
    }
    (None, c.excluded_positions)
}

impl Sub for Over {
    type Case = Case;
    fn name(&self) -> &'static str {
        "overestimate"
    }
    fn rule(&self) -> &'static str {
        "DNA (generic, avx2, dispatch forced to each arm, DiscreteMatrix::score_position on 32 columns; generic and sse2 on 48 or 64 columns) and protein (generic) x matrices with finite non-wildcard cells (library / finite / small-int / near-tie), widths biased to >= 10 x sequences with the consensus or anti-consensus word embedded, wildcard windows; oracle b_i >= scale(r_i) strictly, and r_i >= t => b_i >= scale(t) for thresholds at/near real scores; non-trivial = some window's exact integer cell sum exceeds 255"
    }
    fn cases(&self, tier: Tier) -> u64 {
        tier.pick(80_000, 2_000_000)
    }
    fn strategy(&self, tier: Tier) -> BoxedStrategy<Case> {
        strategy(tier)
    }
    fn check(&self, case: &Case, cx: &Cx) -> Verdict {
        if case.mat.m() == 0 {
            return Verdict::Pass(CaseInfo::new());
        }
        let mut info = CaseInfo::new();
        info.class_if(case.wild == 1, "wildcard-cell=+inf");
        info.class_if(case.wild == 2, "rows-constant-over-real-symbols,wildcard-above");
        info.class_if(case.wild == 3, "real-cells-within-1e-30,wildcard=1e10");
        let (f, mut excluded) = match case.abc {
            Abc::Dna => {
                info.class("dna");
                let (f, e) = run::<Dna>(case, cx, &mut info);
                if f.is_some() {
                    (f, e)
                } else {
                    let (f2, e2) = run_dna_simd(case, cx, &mut info);
                    if f2.is_some() {
                        (f2, e + e2)
                    } else if case.thresholds.len() % 2 == 0 {
                        let (f3, e3) = run_other_layout::<Dna, U64>(case, cx, &mut info);
                        info.class("also-64-columns(generic,sse2)");
                        (f3, e + e2 + e3)
                    } else {
                        let (f3, e3) = run_other_layout::<Dna, U48>(case, cx, &mut info);
                        info.class("also-48-columns(generic,sse2)");
                        (f3, e + e2 + e3)
                    }
                }
            }
            Abc::Protein => {
                info.class("protein");
                run::<Protein>(case, cx, &mut info)
            }
        };
        if let Some(f) = f {
            return Verdict::Fail(f);
        }
        if excluded > 0 {
            info.class("positions-excluded-by-known-finding");
            excluded = 0;
        }
        let _ = excluded;
        Verdict::Pass(info)
    }
}

pub fn property() -> Property {
    Property {
        id: "C08",
        subs: vec![Box::new(Over)],
        assumptions: vec![
            "matrices have finite entries over the non-wildcard symbols (the property's domain); the wildcard column may be finite or -inf",
            "the byte image of a score is the matrix's own DiscreteMatrix::scale",
            "NEON kernel not executed on this host",
        ],
    }
}
