//! C14 — well-formed motif files load completely and exactly under any stream chunking.
//!
//! Also hosts the file model, the four writers and the chunked `BufRead` used by C15.

use std::io::{BufRead, BufReader, Cursor, Read};

use lightmotif::abc::{Alphabet, Dna, Protein};
use proptest::prelude::*;
use serde::{Deserialize, Serialize};

use crate::engine::*;
use crate::gen::*;

// ---------------------------------------------------------------------------
// model
// ---------------------------------------------------------------------------

#[derive(Clone, Copy, Debug, PartialEq, Eq, Serialize, Deserialize)]
pub enum Format {
    Jaspar,
    Jaspar16,
    Transfac,
    Uniprobe,
}

#[derive(Clone, Debug, Serialize, Deserialize, PartialEq)]
pub struct RecModel {
    pub id: String,
    pub accession: Option<String>,
    pub name: Option<String>,
    pub description: Option<String>,
    /// symbol indices in the order their lines / columns are written
    pub symbols: Vec<u8>,
    /// tokens[s][p]: the number written for symbol `symbols[s]` at position p
    pub tokens: Vec<Vec<String>>,
    /// layout choices (separator runs, optional lines, tag order), consumed by the writers
    pub layout: u64,
}

impl RecModel {
    pub fn width(&self) -> usize {
        self.tokens.first().map(|t| t.len()).unwrap_or(0)
    }
}

#[derive(Clone, Debug, Serialize, Deserialize)]
pub struct FileModel {
    pub format: Format,
    pub abc: Abc,
    pub records: Vec<RecModel>,
    pub crlf: bool,
    /// TRANSFAC: write a `VV` header block first
    pub version_header: bool,
    /// blank lines before the first / after the last record (where the format allows them)
    pub blank_before: u8,
    pub blank_after: u8,
}

/// What a reader returned for one record, in model terms.
#[derive(Clone, Debug, PartialEq)]
pub struct RecRead {
    pub id: Option<String>,
    pub accession: Option<String>,
    pub name: Option<String>,
    pub description: Option<String>,
    /// width x K values
    pub matrix: Vec<Vec<f32>>,
    /// a derived accessor of the record (`into_matrix`, TRANSFAC `to_counts`) disagreeing with the
    /// matrix above: what it gave (always `None` on the model side)
    pub derived: Option<String>,
}

// ---------------------------------------------------------------------------
// writers
// ---------------------------------------------------------------------------

struct Lay(u64);
impl Lay {
    fn next(&mut self, n: u64) -> u64 {
        self.0 = splitmix64(self.0);
        (self.0 >> 11) % n
    }
    fn sep(&mut self) -> &'static str {
        match self.next(7) {
            0 | 1 | 2 => " ",
            3 => "  ",
            4 => "\t",
            5 => "     ",
            _ => " \t ",
        }
    }
}

pub fn write_file(f: &FileModel) -> Vec<u8> {
    let nl = if f.crlf { "\r\n" } else { "\n" };
    let letters = f.abc.letters();
    let mut out = String::new();
    match f.format {
        Format::Jaspar => {
            for _ in 0..f.blank_before {
                out.push_str(nl);
            }
            for r in &f.records {
                let mut l = Lay(r.layout);
                out.push('>');
                out.push_str(&r.id);
                if let Some(d) = &r.description {
                    out.push_str(if l.next(2) == 0 { " " } else { "\t" });
                    out.push_str(d);
                }
                out.push_str(nl);
                // exactly four lines: A, C, G, T (library symbol indices 0, 1, 3, 2)
                for want in [0u8, 1, 3, 2] {
                    let s = r.symbols.iter().position(|&x| x == want).expect("jaspar records carry A, C, G, T");
                    if l.next(3) == 0 {
                        out.push_str(l.sep());
                    }
                    for (p, tok) in r.tokens[s].iter().enumerate() {
                        if p > 0 {
                            out.push_str(l.sep());
                        }
                        out.push_str(tok);
                    }
                    out.push_str(nl);
                }
            }
            for _ in 0..f.blank_after {
                out.push_str(nl);
            }
        }
        Format::Jaspar16 => {
            for _ in 0..f.blank_before {
                out.push_str(nl);
            }
            for r in &f.records {
                let mut l = Lay(r.layout);
                out.push('>');
                out.push_str(&r.id);
                if let Some(d) = &r.description {
                    out.push_str(if l.next(2) == 0 { " " } else { "\t" });
                    out.push_str(d);
                }
                out.push_str(nl);
                for (s, &sym) in r.symbols.iter().enumerate() {
                    out.push(letters[sym as usize] as char);
                    out.push_str(l.sep());
                    out.push('[');
                    if l.next(2) == 0 {
                        out.push_str(l.sep());
                    }
                    for (p, tok) in r.tokens[s].iter().enumerate() {
                        if p > 0 {
                            out.push_str(l.sep());
                        }
                        out.push_str(tok);
                    }
                    if l.next(2) == 0 {
                        out.push_str(l.sep());
                    }
                    out.push(']');
                    // one row in four ends in blanks or a tab after the bracket (drawn apart from the layout stream, so
                    // that files written from earlier layout values keep their bytes otherwise)
                    match splitmix64(r.layout ^ ((s as u64 + 1) << 40)) % 8 {
                        0 => out.push(' '),
                        1 => out.push_str("  \t"),
                        _ => {}
                    }
                    out.push_str(nl);
                }
            }
            for _ in 0..f.blank_after {
                out.push_str(nl);
            }
        }
        Format::Transfac => {
            if f.version_header {
                out.push_str("VV  TRANSFAC MATRIX TABLE, Release 9.2 - licensed - 2005-06-30, (C) Biobase GmbH");
                out.push_str(nl);
                out.push_str("XX");
                out.push_str(nl);
                out.push_str("//");
                out.push_str(nl);
            }
            let last = f.records.len().saturating_sub(1);
            for (ri, r) in f.records.iter().enumerate() {
                let mut l = Lay(r.layout);
                // metadata lines in a layout-chosen order
                let mut meta: Vec<(&str, &String)> = Vec::new();
                meta.push(("ID", &r.id));
                if let Some(x) = &r.accession {
                    meta.push(("AC", x));
                }
                if let Some(x) = &r.name {
                    meta.push(("NA", x));
                }
                if let Some(x) = &r.description {
                    meta.push(("DE", x));
                }
                let rot = l.next(meta.len() as u64) as usize;
                meta.rotate_left(rot);
                for (tag, val) in meta {
                    out.push_str(tag);
                    out.push_str("  ");
                    out.push_str(val);
                    out.push_str(nl);
                    if l.next(3) == 0 {
                        out.push_str("XX");
                        out.push_str(nl);
                    }
                }
                if l.next(4) == 0 {
                    out.push_str("BF  Pseudomonas aeruginosa");
                    out.push_str(nl);
                }
                if l.next(4) == 0 {
                    out.push_str("CC  a comment line");
                    out.push_str(nl);
                }
                if !r.symbols.is_empty() {
                    out.push_str(if l.next(2) == 0 { "P0" } else { "PO" });
                    for &sym in &r.symbols {
                        out.push_str(match l.next(3) {
                            0 => " ",
                            1 => "      ",
                            _ => "\t",
                        });
                        out.push(letters[sym as usize] as char);
                    }
                    out.push_str(nl);
                    let consensus = l.next(2) == 0;
                    for p in 0..r.width() {
                        out.push_str(&format!("{:02}", p + 1));
                        for s in 0..r.symbols.len() {
                            out.push_str(match l.next(3) {
                                0 => " ",
                                1 => "      ",
                                _ => "\t",
                            });
                            out.push_str(&r.tokens[s][p]);
                        }
                        if consensus {
                            out.push_str("      N");
                        }
                        out.push_str(nl);
                    }
                    if l.next(2) == 0 {
                        out.push_str("XX");
                        out.push_str(nl);
                    }
                }
                out.push_str("//");
                // the last terminator may lack its newline
                if ri != last || f.blank_after == 0 {
                    out.push_str(nl);
                }
            }
        }
        Format::Uniprobe => {
            for _ in 0..f.blank_before {
                out.push_str(nl);
            }
            for r in &f.records {
                let mut l = Lay(r.layout);
                out.push_str(&r.id);
                out.push_str(nl);
                if l.next(5) == 0 {
                    out.push_str(nl);
                }
                for (s, &sym) in r.symbols.iter().enumerate() {
                    out.push(letters[sym as usize] as char);
                    out.push(':');
                    for tok in &r.tokens[s] {
                        out.push('\t');
                        out.push_str(tok);
                    }
                    out.push_str(nl);
                    if l.next(8) == 0 {
                        out.push_str(nl);
                    }
                }
                for _ in 0..l.next(3) {
                    out.push_str(nl);
                }
            }
            for _ in 0..f.blank_after {
                out.push_str(nl);
            }
        }
    }
    out.into_bytes()
}

/// The records a correct reader must return for a model.
pub fn expected(f: &FileModel) -> Vec<RecRead> {
    let k = f.abc.k();
    f.records
        .iter()
        .map(|r| {
            let mut matrix = vec![vec![0.0f32; k]; r.width()];
            for (s, &sym) in r.symbols.iter().enumerate() {
                for (p, tok) in r.tokens[s].iter().enumerate() {
                    matrix[p][sym as usize] = tok.parse::<f32>().expect("writer tokens are numbers");
                }
            }
            match f.format {
                Format::Jaspar | Format::Jaspar16 => RecRead { id: Some(r.id.clone()), accession: None, name: None, description: r.description.clone(), matrix, derived: None },
                Format::Transfac => RecRead { id: Some(r.id.clone()), accession: r.accession.clone(), name: r.name.clone(), description: r.description.clone(), matrix, derived: None },
                Format::Uniprobe => RecRead { id: Some(r.id.clone()), accession: None, name: None, description: None, matrix, derived: None },
            }
        })
        .collect()
}

// ---------------------------------------------------------------------------
// chunked streams
// ---------------------------------------------------------------------------

#[derive(Clone, Debug, Serialize, Deserialize)]
pub enum Chunking {
    /// in-memory cursor: `fill_buf` hands out everything
    Whole,
    /// every `fill_buf` hands out at most this many bytes
    Fixed(usize),
    /// chunk sizes cycle through this pattern
    Pattern(Vec<usize>),
    /// `BufReader::with_capacity(c, cursor)`
    Capacity(usize),
}

pub struct Chunked {
    data: Vec<u8>,
    pos: usize,
    end: usize,
    pattern: Vec<usize>,
    turn: usize,
    pub fills: usize,
}

impl Chunked {
    pub fn new(data: Vec<u8>, pattern: Vec<usize>) -> Self {
        Self { data, pos: 0, end: 0, pattern, turn: 0, fills: 0 }
    }
}

impl Read for Chunked {
    fn read(&mut self, buf: &mut [u8]) -> std::io::Result<usize> {
        let avail = self.fill_buf()?;
        let n = avail.len().min(buf.len());
        buf[..n].copy_from_slice(&avail[..n]);
        self.consume(n);
        Ok(n)
    }
}

impl BufRead for Chunked {
    fn fill_buf(&mut self) -> std::io::Result<&[u8]> {
        if self.pos >= self.end {
            let c = self.pattern[self.turn % self.pattern.len()].max(1);
            self.turn += 1;
            self.fills += 1;
            self.end = (self.pos + c).min(self.data.len());
        }
        Ok(&self.data[self.pos..self.end])
    }
    fn consume(&mut self, amt: usize) {
        self.pos = (self.pos + amt).min(self.end);
    }
}

pub fn open(data: &[u8], c: &Chunking) -> Box<dyn BufRead> {
    match c {
        Chunking::Whole => Box::new(Cursor::new(data.to_vec())),
        Chunking::Fixed(n) => Box::new(Chunked::new(data.to_vec(), vec![(*n).max(1)])),
        Chunking::Pattern(p) => Box::new(Chunked::new(data.to_vec(), if p.is_empty() { vec![1] } else { p.clone() })),
        Chunking::Capacity(n) => Box::new(BufReader::with_capacity((*n).max(1), Cursor::new(data.to_vec()))),
    }
}

// ---------------------------------------------------------------------------
// reading through the library
// ---------------------------------------------------------------------------

pub struct ReadOutcome {
    pub records: Vec<RecRead>,
    /// Debug text of the first error, if the reader returned one (reading stops there)
    pub error: Option<String>,
    /// `next()` calls made
    pub calls: usize,
    /// the cap on calls was reached without `None` / `Err`
    pub runaway: bool,
    /// after the first `None`, a second `next()` returned something else than `None`
    pub unfused: bool,
}

fn rows_of<T: Copy + Into<f64>, A: Alphabet>(m: &lightmotif::dense::DenseMatrix<T, A::K>) -> Vec<Vec<f32>>
where
    T: lightmotif::dense::MatrixElement,
{
    (0..m.rows()).map(|i| m[i].iter().map(|&x| Into::<f64>::into(x) as f32).collect()).collect()
}

fn drive<I, R, F>(mut it: I, cap: usize, conv: F) -> ReadOutcome
where
    I: Iterator<Item = Result<R, lightmotif_io::error::Error>>,
    F: Fn(R) -> RecRead,
{
    let mut out = ReadOutcome { records: Vec::new(), error: None, calls: 0, runaway: false, unfused: false };
    loop {
        if out.calls >= cap {
            out.runaway = true;
            break;
        }
        out.calls += 1;
        match it.next() {
            None => {
                out.unfused = it.next().is_some();
                break;
            }
            Some(Err(e)) => {
                out.error = Some(format!("{:?}", e));
                // a caller that logs the error and asks again (`filter_map(Result::ok)`, the Python loader's
                // `__next__` after it raised): every request returns - whatever it returns
                for _ in 0..3 {
                    out.calls += 1;
                    if it.next().is_none() {
                        break;
                    }
                }
                break;
            }
            Some(Ok(r)) => out.records.push(conv(r)),
        }
    }
    out
}

fn read_typed<A: Alphabet>(format: Format, stream: Box<dyn BufRead>, cap: usize) -> ReadOutcome {
    match format {
        Format::Jaspar => unreachable!("jaspar raw is DNA only"),
        Format::Jaspar16 => drive(lightmotif_io::jaspar16::read::<_, A>(stream), cap, |r| RecRead {
            id: Some(r.id().to_string()),
            accession: None,
            name: None,
            description: r.description().map(String::from),
            matrix: rows_of::<u32, A>(r.matrix().matrix()),
            derived: {
                let m = rows_of::<u32, A>(r.matrix().matrix());
                let by_value = rows_of::<u32, A>(r.clone().into_matrix().matrix());
                if by_value != m { Some(format!("into_matrix() = {:?}", by_value)) } else { None }
            },
        }),
        Format::Transfac => drive(lightmotif_io::transfac::read::<_, A>(stream), cap, |r| RecRead {
            id: r.id().map(String::from),
            accession: r.accession().map(String::from),
            name: r.name().map(String::from),
            description: r.description().map(String::from),
            matrix: r.data().map(|d| rows_of::<f32, A>(d)).unwrap_or_default(),
            derived: r.data().and_then(|d| {
                let m = rows_of::<f32, A>(d);
                let integral = m.iter().flatten().all(|x| x.fract() == 0.0 && *x >= 0.0 && *x < 2147483648.0);
                match (integral, r.to_counts()) {
                    (true, Some(c)) => {
                        let cm = rows_of::<u32, A>(c.matrix());
                        if cm != m { Some(format!("to_counts() = {:?}", cm)) } else { None }
                    }
                    (true, None) => Some("to_counts() = None for integral data".to_string()),
                    (false, Some(_)) if m.iter().flatten().any(|x| x.fract() != 0.0) => Some("to_counts() = Some(..) for fractional data".to_string()),
                    _ => None,
                }
            }),
        }),
        Format::Uniprobe => drive(lightmotif_io::uniprobe::read::<_, A>(stream), cap, |r| RecRead {
            id: Some(r.id().to_string()),
            accession: None,
            name: None,
            description: None,
            matrix: rows_of::<f32, A>(r.matrix().matrix()),
            derived: {
                let m = rows_of::<f32, A>(r.matrix().matrix());
                let by_value = rows_of::<f32, A>(r.clone().into_matrix().matrix());
                if by_value != m { Some(format!("into_matrix() = {:?}", by_value)) } else { None }
            },
        }),
    }
}

/// Read a whole stream through the library reader of `format`.
pub fn read_all(format: Format, abc: Abc, stream: Box<dyn BufRead>, cap: usize) -> ReadOutcome {
    match (format, abc) {
        (Format::Jaspar, _) => drive(lightmotif_io::jaspar::read(stream), cap, |r| RecRead {
            id: Some(r.id().to_string()),
            accession: None,
            name: None,
            description: r.description().map(String::from),
            matrix: rows_of::<u32, Dna>(r.matrix().matrix()),
            derived: {
                let m = rows_of::<u32, Dna>(r.matrix().matrix());
                let by_value = rows_of::<u32, Dna>(lightmotif::pwm::CountMatrix::<Dna>::from(r.clone()).matrix());
                if by_value != m || rows_of::<u32, Dna>(AsRef::<lightmotif::pwm::CountMatrix<Dna>>::as_ref(&r).matrix()) != m { Some(format!("CountMatrix::from(record) = {:?}", by_value)) } else { None }
            },
        }),
        (f, Abc::Dna) => read_typed::<Dna>(f, stream, cap),
        (f, Abc::Protein) => read_typed::<Protein>(f, stream, cap),
    }
}

// ---------------------------------------------------------------------------
// generators
// ---------------------------------------------------------------------------

fn word_chars(extra: &str) -> Vec<char> {
    let mut v: Vec<char> = ('A'..='Z').chain('a'..='z').chain('0'..='9').collect();
    v.extend("._-:|+()/é中λ".chars());
    v.extend(extra.chars());
    v
}

/// identifier without any whitespace, never starting with `>`
fn ident_strategy() -> BoxedStrategy<String> {
    proptest::collection::vec(proptest::sample::select(word_chars("")), 1..16).prop_map(|v| v.into_iter().collect()).boxed()
}

/// free text: words separated by single spaces, no leading / trailing blank, no line break, no `>`
fn text_strategy() -> BoxedStrategy<String> {
    proptest::collection::vec(proptest::collection::vec(proptest::sample::select(word_chars(",;'*=")), 1..9).prop_map(|v| v.into_iter().collect::<String>()), 1..5)
        .prop_map(|w| w.join(" "))
        .boxed()
}

fn symbols_strategy(abc: Abc, format: Format) -> BoxedStrategy<Vec<u8>> {
    let k = abc.k() as u8;
    match format {
        Format::Jaspar => Just(vec![0u8, 1, 3, 2]).boxed(),
        _ => {
            // a subset of the symbols (wildcard included now and then) in any order, never empty
            let real: Vec<u8> = (0..k - 1).collect();
            (proptest::sample::subsequence(real.clone(), 1..=real.len()), any::<bool>(), any::<u64>())
                .prop_map(move |(mut v, wild, seed)| {
                    if wild && seed % 4 == 0 {
                        v.push(k - 1);
                    }
                    // deterministic shuffle
                    let mut s = seed;
                    for i in (1..v.len()).rev() {
                        s = splitmix64(s);
                        v.swap(i, (s % (i as u64 + 1)) as usize);
                    }
                    v
                })
                .boxed()
        }
    }
}

fn record_strategy(abc: Abc, format: Format) -> BoxedStrategy<RecModel> {
    // mostly short motifs; one in twelve wide enough for three-digit position numbers and long row lines
    let width = prop_oneof![11 => 1usize..=30, 1 => prop_oneof![Just(99usize), Just(100usize), Just(101usize), 31usize..=130]];
    (symbols_strategy(abc, format), width, ident_strategy(), proptest::option::of(ident_strategy()), proptest::option::of(text_strategy()), proptest::option::of(text_strategy()), any::<u64>(), any::<u64>())
        .prop_flat_map(move |(symbols, w, id, accession, name, description, layout, vseed)| {
            let ns = symbols.len();
            let tokens: BoxedStrategy<Vec<Vec<String>>> = match format {
                Format::Jaspar | Format::Jaspar16 => {
                    let cell = prop_oneof![5 => 0u32..=100, 3 => 0u32..=100_000, 1 => Just(u32::MAX), 1 => any::<u32>()];
                    proptest::collection::vec(proptest::collection::vec(cell.prop_map(|x| x.to_string()), w), ns).boxed()
                }
                Format::Transfac => {
                    let cell = prop_oneof![
                        5 => (0u32..=100).prop_map(|x| x.to_string()),
                        2 => (0u32..=100_000).prop_map(|x| x.to_string()),
                        2 => (0u32..=9999, 0u32..=999).prop_map(|(a, b)| format!("{}.{:03}", a, b)),
                        1 => (0u32..=99).prop_map(|a| format!("{}.5", a)),
                        // integers beyond the 24-bit significand of f32: the cell is the nearest f32 of the number as written
                        1 => prop_oneof![any::<u32>(), (1u32 << 24)..=(1u32 << 27), Just(40000015u32), Just(16777217u32), Just(u32::MAX)].prop_map(|x| x.to_string()),
                    ];
                    proptest::collection::vec(proptest::collection::vec(cell, w), ns).boxed()
                }
                Format::Uniprobe => {
                    // each position: a composition of 1000 over the written symbols, three decimals
                    Just(()).prop_map(move |_| {
                        let mut s = vseed;
                        let mut cols: Vec<Vec<String>> = vec![Vec::with_capacity(w); ns];
                        for _ in 0..w {
                            let mut rest = 1000u64;
                            for si in 0..ns {
                                let v = if si + 1 == ns {
                                    rest
                                } else {
                                    s = splitmix64(s);
                                    (s >> 13) % (rest + 1)
                                };
                                rest -= v;
                                cols[si].push(if v == 1000 { "1.000".to_string() } else { format!("0.{:03}", v) });
                            }
                        }
                        cols
                    })
                    .boxed()
                }
            };
            let (id2, acc2, name2, desc2, symbols2) = (id.clone(), accession.clone(), name.clone(), description.clone(), symbols.clone());
            tokens.prop_map(move |tokens| RecModel {
                id: id2.clone(),
                accession: acc2.clone(),
                name: name2.clone(),
                description: desc2.clone(),
                symbols: symbols2.clone(),
                tokens,
                layout,
            })
        })
        .boxed()
}

pub fn file_strategy(max_records: usize) -> BoxedStrategy<FileModel> {
    prop_oneof![Just(Format::Jaspar), Just(Format::Jaspar16), Just(Format::Transfac), Just(Format::Uniprobe)]
        .prop_flat_map(move |format| {
            let abc = match format {
                Format::Jaspar => Just(Abc::Dna).boxed(),
                _ => prop_oneof![3 => Just(Abc::Dna), 1 => Just(Abc::Protein)].boxed(),
            };
            abc.prop_flat_map(move |abc| {
                let n = prop_oneof![2 => 1usize..=3, 3 => 2usize..=12, 1 => 12usize..=max_records.max(13)];
                (n.prop_flat_map(move |n| proptest::collection::vec(record_strategy(abc, format), n)), any::<bool>(), any::<bool>(), 0u8..=2, 0u8..=2).prop_map(
                    move |(records, crlf, version_header, blank_before, blank_after)| FileModel { format, abc, records, crlf, version_header, blank_before, blank_after },
                )
            })
        })
        .boxed()
}

pub fn chunking_strategy() -> BoxedStrategy<Chunking> {
    prop_oneof![
        2 => Just(Chunking::Fixed(1)),
        2 => (2usize..=9).prop_map(Chunking::Fixed),
        2 => (10usize..=300).prop_map(Chunking::Fixed),
        3 => proptest::collection::vec(prop_oneof![3 => 1usize..=4, 2 => 5usize..=64, 1 => 65usize..=5000], 1..6).prop_map(Chunking::Pattern),
        3 => proptest::sample::select(vec![1usize, 2, 3, 7, 64, 8192]).prop_map(Chunking::Capacity),
        1 => Just(Chunking::Whole),
    ]
    .boxed()
}

// ---------------------------------------------------------------------------
// sub-check 1: round trip of generated files under generated chunkings
// ---------------------------------------------------------------------------

#[derive(Clone, Debug, Serialize, Deserialize)]
pub struct Case {
    pub file: FileModel,
    pub chunkings: Vec<Chunking>,
}

pub struct RoundTrip;

fn diff(format: Format, got: &ReadOutcome, want: &[RecRead], how: &str) -> Option<Failure> {
    let f = format!("{:?}", format).to_lowercase();
    if let Some(e) = &got.error {
        return Some(Failure::new(format!("{}:error-on-wellformed", f), format!("{}: record #{} of {}: reader returned {}", how, got.records.len(), want.len(), e)));
    }
    if got.runaway {
        return Some(Failure::new(format!("{}:no-end-of-input", f), format!("{}: more than {} records returned for a file of {}", how, got.calls, want.len())));
    }
    if got.records.len() != want.len() {
        return Some(Failure::new(format!("{}:record-count", f), format!("{}: {} records read, {} written", how, got.records.len(), want.len())));
    }
    for (i, (g, w)) in got.records.iter().zip(want.iter()).enumerate() {
        if g.id != w.id || g.accession != w.accession || g.name != w.name || g.description != w.description {
            return Some(Failure::new(
                format!("{}:metadata", f),
                format!("{}: record #{}: read id={:?} ac={:?} na={:?} de={:?}, written id={:?} ac={:?} na={:?} de={:?}", how, i, g.id, g.accession, g.name, g.description, w.id, w.accession, w.name, w.description),
            ));
        }
        if let Some(d) = &g.derived {
            return Some(Failure::new(format!("{}:derived-accessor", f), format!("{}: record #{}: {} but the record's matrix is {:?}", how, i, d, g.matrix)));
        }
        if g.matrix != w.matrix {
            let at = (0..w.matrix.len().min(g.matrix.len())).find(|&p| g.matrix[p] != w.matrix[p]);
            return Some(Failure::new(
                format!("{}:matrix", f),
                format!("{}: record #{}: {} rows read, {} written; first differing row {:?}: read {:?} written {:?}", how, i, g.matrix.len(), w.matrix.len(), at, at.map(|p| &g.matrix[p]), at.map(|p| &w.matrix[p])),
            ));
        }
    }
    if got.unfused {
        return Some(Failure::new(format!("{}:not-fused", f), format!("{}: next() after the end of input returned something", how)));
    }
    None
}

impl Sub for RoundTrip {
    type Case = Case;
    fn name(&self) -> &'static str {
        "roundtrip"
    }
    fn rule(&self) -> &'static str {
        "model list of 1..40 (quick) / ..400 (thorough) records -> own writer per format (JASPAR raw, JASPAR 2016, TRANSFAC, UniPROBE; DNA and protein where supported; ids / accession / name / description present or absent incl. multi-byte UTF-8; width 1..30, one in twelve 31..130 (position numbers of three digits); counts to u32::MAX in every count format (TRANSFAC: also decimals); symbol lines / columns in any order and possibly missing; separator runs of blanks and tabs (JASPAR 2016: also after the closing bracket of a row); LF or CRLF; optional VV block, XX lines, blank lines where the format allows) -> bytes -> reader over 3 generated chunkings (1-byte chunks, fixed, cyclic patterns, BufReader capacity 1..8192, whole); records read must equal the model (count, order, every field, every cell, unnamed columns 0), the by-value / derived accessors (into_matrix, CountMatrix::from(record), TRANSFAC to_counts for integral data) must agree with the matrix, and then None twice; non-trivial = >= 2 records and a chunking whose chunks are shorter than the file"
    }
    fn cases(&self, tier: Tier) -> u64 {
        tier.pick(20_000, 400_000)
    }
    fn strategy(&self, tier: Tier) -> BoxedStrategy<Case> {
        (file_strategy(tier.pick(40, 400)), proptest::collection::vec(chunking_strategy(), 3)).prop_map(|(file, chunkings)| Case { file, chunkings }).boxed()
    }
    fn check(&self, case: &Case, _cx: &Cx) -> Verdict {
        let bytes = write_file(&case.file);
        let want = expected(&case.file);
        let mut info = CaseInfo::new();
        let f = &case.file;
        info.class(match f.format {
            Format::Jaspar => "jaspar",
            Format::Jaspar16 => "jaspar16",
            Format::Transfac => "transfac",
            Format::Uniprobe => "uniprobe",
        });
        info.class_if(f.abc == Abc::Protein, "protein");
        info.class_if(f.crlf, "crlf");
        info.class_if(bytes.len() > 8192, "file>8KiB");
        info.class_if(f.records.len() >= 12, ">=12-records");
        info.class_if(f.records.iter().any(|r| r.width() >= 100), "a-motif-of-100-or-more-positions");
        info.class_if(f.records.iter().any(|r| r.symbols.len() < f.abc.k() - 1), "missing-symbols");
        info.class_if(f.records.iter().any(|r| r.description.is_none()), "optional-field-absent");
        info.class_if(f.records.iter().any(|r| !r.id.is_ascii() || r.description.as_deref().map_or(false, |d| !d.is_ascii())), "multi-byte-utf8");
        let mut split = false;
        for c in case.chunkings.iter().chain(std::iter::once(&Chunking::Whole)) {
            let how = format!("chunking {:?}", c);
            match c {
                Chunking::Fixed(1) => info.class("chunk-size-1"),
                Chunking::Capacity(1) => info.class("capacity-1"),
                _ => {}
            }
            let small = match c {
                Chunking::Whole => false,
                Chunking::Fixed(n) | Chunking::Capacity(n) => *n < bytes.len(),
                Chunking::Pattern(p) => p.iter().any(|&n| n < bytes.len()),
            };
            split |= small;
            let got = read_all(f.format, f.abc, open(&bytes, c), want.len() + 3);
            info.comparisons += want.len() as u64;
            if let Some(fl) = diff(f.format, &got, &want, &how) {
                return Verdict::Fail(fl);
            }
        }
        info.nontrivial = f.records.len() >= 2 && split;
        Verdict::Pass(info)
    }
}

// ---------------------------------------------------------------------------
// sub-check 2: the repository's bundled files — chunked == whole == independent parser
// ---------------------------------------------------------------------------

#[derive(Clone, Debug, Serialize, Deserialize)]
pub struct BundledCase {
    /// path relative to /repo
    pub path: String,
    pub format: Format,
    pub chunking: Chunking,
}

pub struct Bundled;

const FILES: &[(&str, Format, bool)] = &[
    ("lightmotif-io/tests/MA0001.3.pfm", Format::Jaspar16, false),
    ("lightmotif-io/tests/MA0017.3.pfm", Format::Jaspar16, false),
    ("lightmotif-io/tests/M00005.transfac", Format::Transfac, false),
    ("lightmotif-io/tests/MA0001.2.transfac", Format::Transfac, false),
    ("lightmotif-io/tests/MX000001.transfac", Format::Transfac, false),
    ("lightmotif-io/tests/Cha4.uniprobe", Format::Uniprobe, false),
    ("lightmotif-io/tests/Gal4.uniprobe", Format::Uniprobe, false),
    ("lightmotif-io/tests/demo.uniprobe", Format::Uniprobe, false),
    ("lightmotif-io/benches/JASPAR2024.pwm", Format::Jaspar16, true),
    ("lightmotif-io/benches/prodoric.transfac", Format::Transfac, true),
];

/// Independent whitespace-splitting parser: (id, rows) per record, DNA, for the three formats.
fn independent(format: Format, text: &str) -> Vec<(String, Vec<Vec<f32>>)> {
    let idx = |c: char| "ACTGN".find(c);
    let mut out = Vec::new();
    match format {
        Format::Jaspar16 => {
            let mut cur: Option<(String, Vec<Vec<f32>>)> = None;
            for line in text.lines() {
                if let Some(h) = line.strip_prefix('>') {
                    if let Some(c) = cur.take() {
                        out.push(c);
                    }
                    cur = Some((h.split_whitespace().next().unwrap_or("").to_string(), Vec::new()));
                } else if let Some((sym, rest)) = line.trim().split_once(|c: char| c.is_whitespace()) {
                    let nums: Vec<f32> = rest.replace(['[', ']'], " ").split_whitespace().filter_map(|t| t.parse().ok()).collect();
                    if let (Some(j), Some(c)) = (sym.chars().next().and_then(idx), cur.as_mut()) {
                        if c.1.is_empty() {
                            c.1 = vec![vec![0.0; 5]; nums.len()];
                        }
                        for (p, v) in nums.iter().enumerate() {
                            c.1[p][j] = *v;
                        }
                    }
                }
            }
            if let Some(c) = cur.take() {
                out.push(c);
            }
        }
        Format::Transfac => {
            let mut id = String::new();
            let mut cols: Vec<usize> = Vec::new();
            let mut rows: Vec<Vec<f32>> = Vec::new();
            let mut any = false;
            let mut header = false;
            for line in text.lines() {
                let tag = line.get(..2).unwrap_or("");
                if tag == "//" {
                    if any && !header {
                        out.push((std::mem::take(&mut id), std::mem::take(&mut rows)));
                    }
                    any = false;
                    header = false;
                    cols.clear();
                } else if tag == "VV" {
                    header = true;
                } else if tag == "ID" {
                    id = line[2..].trim().to_string();
                    any = true;
                } else if tag == "P0" || tag == "PO" {
                    cols = line[2..].split_whitespace().filter_map(|t| t.chars().next().and_then(idx)).collect();
                    any = true;
                } else if tag.chars().all(|c| c.is_ascii_digit()) && !cols.is_empty() {
                    let toks: Vec<&str> = line.split_whitespace().collect();
                    let mut row = vec![0.0f32; 5];
                    for (ci, &j) in cols.iter().enumerate() {
                        row[j] = toks.get(ci + 1).and_then(|t| t.parse().ok()).unwrap_or(f32::NAN);
                    }
                    rows.push(row);
                } else if !tag.trim().is_empty() {
                    any = true;
                }
            }
        }
        Format::Uniprobe => {
            let mut cur: Option<(String, Vec<Vec<f32>>)> = None;
            for line in text.lines() {
                if line.trim().is_empty() {
                    continue;
                }
                let is_col = line.len() > 2 && line.as_bytes()[1] == b':' && idx(line.chars().next().unwrap()).is_some() && line.as_bytes()[2] == b'\t';
                if is_col {
                    let j = idx(line.chars().next().unwrap()).unwrap();
                    let nums: Vec<f32> = line[2..].split('\t').filter(|t| !t.is_empty()).filter_map(|t| t.trim().parse().ok()).collect();
                    if let Some(c) = cur.as_mut() {
                        if c.1.is_empty() {
                            c.1 = vec![vec![0.0; 5]; nums.len()];
                        }
                        for (p, v) in nums.iter().enumerate() {
                            c.1[p][j] = *v;
                        }
                    }
                } else {
                    if let Some(c) = cur.take() {
                        out.push(c);
                    }
                    cur = Some((line.trim().to_string(), Vec::new()));
                }
            }
            if let Some(c) = cur.take() {
                out.push(c);
            }
        }
        Format::Jaspar => {}
    }
    out
}

impl Sub for Bundled {
    type Case = BundledCase;
    fn name(&self) -> &'static str {
        "bundled-files"
    }
    fn rule(&self) -> &'static str {
        "the repository's own motif files (8 small test files; thorough adds the 2346-record JASPAR2024.pwm and the 353-record prodoric.transfac) read under a generated chunking; the result must equal the read from an in-memory cursor and an independent whitespace-splitting parser written for the check (ids and every cell); non-trivial = >= 2 records"
    }
    fn cases(&self, tier: Tier) -> u64 {
        tier.pick(600, 3_000)
    }
    fn strategy(&self, tier: Tier) -> BoxedStrategy<BundledCase> {
        let files: Vec<(String, Format)> = FILES.iter().filter(|f| !f.2 || tier == Tier::Thorough).map(|f| (f.0.to_string(), f.1)).collect();
        (proptest::sample::select(files), chunking_strategy()).prop_map(|((path, format), chunking)| BundledCase { path, format, chunking }).boxed()
    }
    fn sweep(&self, _tier: Tier) -> Vec<BundledCase> {
        // the two databases once each under two hostile chunkings, in every tier
        let mut v = Vec::new();
        for f in FILES.iter().filter(|f| f.2) {
            for c in [Chunking::Capacity(1), Chunking::Pattern(vec![1, 7, 4096, 3])] {
                v.push(BundledCase { path: f.0.to_string(), format: f.1, chunking: c });
            }
        }
        v
    }
    fn check(&self, case: &BundledCase, _cx: &Cx) -> Verdict {
        let repo = std::env::var("VERIF_REPO").unwrap_or_else(|_| "/repo".into());
        let bytes = match std::fs::read(format!("{}/{}", repo, case.path)) {
            Ok(b) => b,
            Err(e) => return Verdict::Fail(Failure::new("bundled:missing-file", format!("{}: {}", case.path, e))),
        };
        let cap = bytes.len() + 3;
        let whole = read_all(case.format, Abc::Dna, open(&bytes, &Chunking::Whole), cap);
        let chunked = read_all(case.format, Abc::Dna, open(&bytes, &case.chunking), cap);
        let mut info = CaseInfo::new();
        info.nontrivial = whole.records.len() >= 2;
        info.class_if(whole.records.len() > 300, "database-file");
        info.comparisons += whole.records.len() as u64 * 2;
        let f = format!("{:?}", case.format).to_lowercase();
        if let Some(e) = whole.error.as_ref().or(chunked.error.as_ref()) {
            return Verdict::Fail(Failure::new(format!("bundled:{}:error", f), format!("{}: reader returned {}", case.path, e)));
        }
        if whole.records != chunked.records || chunked.runaway || chunked.unfused {
            let at = whole.records.iter().zip(chunked.records.iter()).position(|(a, b)| a != b);
            return Verdict::Fail(Failure::new(
                format!("bundled:{}:chunking-changes-result", f),
                format!("{} under {:?}: {} records vs {} from a cursor; first difference at record {:?}", case.path, case.chunking, chunked.records.len(), whole.records.len(), at),
            ));
        }
        let text = String::from_utf8_lossy(&bytes);
        let ind = independent(case.format, &text);
        if ind.len() != whole.records.len() {
            return Verdict::Fail(Failure::new(format!("bundled:{}:record-count", f), format!("{}: library reads {} records, independent parser {}", case.path, whole.records.len(), ind.len())));
        }
        for (i, (lib, (id, rows))) in whole.records.iter().zip(ind.iter()).enumerate() {
            let lid = lib.id.clone().unwrap_or_default();
            if &lid != id || &lib.matrix != rows {
                return Verdict::Fail(Failure::new(
                    format!("bundled:{}:content", f),
                    format!("{}: record #{} (library id {:?}, independent id {:?}) differs from the independent parse", case.path, i, lid, id),
                ));
            }
        }
        Verdict::Pass(info)
    }
}

pub fn property() -> Property {
    Property {
        id: "C14",
        subs: vec![Box::new(RoundTrip), Box::new(Bundled)],
        assumptions: vec![
            "'well-formed' is what each module documents and its own tests use: JASPAR raw = header + exactly four count lines A,C,G,T, no trailing blanks, no blank line between records, final newline; JASPAR 2016 = `S [ n ... ]` lines, any symbol order/subset, no duplicates; TRANSFAC = documented tags only, every record terminated by `//` (last newline optional), no blank lines; UniPROBE = id line + `S:<tab>floats` lines, blank lines anywhere, final newline, later ids not of the form `<symbol>:<tab>`",
            "identifiers contain no whitespace and no '>' (the JASPAR record splitter reserves it); free-text fields have no leading/trailing blanks (readers trim them)",
            "numbers are compared with str::parse::<f32> of the written token; UniPROBE rows sum to one at three decimals (the reader validates frequencies)",
            "bundled files are read from VERIF_REPO (default /repo)",
        ],
    }
}
