//! Alphabets declared by the caller through the public traits, as a user of the library would for IUPAC codes,
//! reduced amino-acid classes, structure states ... The library's code is generic over `Alphabet`; its two own
//! alphabets have 5 and 21 symbols, so sizes in between (rows of 16 floats instead of 8 or 24) only exist here.
//! Shared by the C06 fuzz target (included through `#[path]`).

use lightmotif::abc::{Alphabet, Symbol};
use lightmotif::err::InvalidSymbol;

macro_rules! user_alphabet {
    ($abc:ident, $sym:ident, $k:ty, $letters:expr, [$($v:ident),+], $last:ident) => {
        #[derive(Clone, Copy, Debug, PartialEq, Eq)]
        #[repr(u8)]
        #[allow(dead_code)]
        pub enum $sym { $($v),+ }

        impl Default for $sym {
            fn default() -> Self {
                $sym::$last
            }
        }

        impl Symbol for $sym {
            fn as_index(&self) -> usize {
                *self as usize
            }
            fn as_ascii(&self) -> u8 {
                $letters.as_bytes()[*self as usize]
            }
            fn from_ascii(c: u8) -> Result<Self, InvalidSymbol> {
                match $letters.as_bytes().iter().position(|&l| l == c) {
                    Some(i) => Ok(<$abc as Alphabet>::symbols()[i]),
                    None => Err(InvalidSymbol(c as char)),
                }
            }
        }

        #[derive(Clone, Copy, Debug, Default, PartialEq, Eq)]
        pub struct $abc;

        impl Alphabet for $abc {
            type Symbol = $sym;
            type K = $k;
            fn symbols() -> &'static [$sym] {
                &[$($sym::$v),+]
            }
            fn as_str() -> &'static str {
                $letters
            }
        }
    };
}

// nine states (eight classes and an unknown)
user_alphabet!(Abc9, Sym9, lightmotif::num::U9, "BCDEFGHIX", [B, C, D, E, F, G, H, I, X], X);
// twelve
user_alphabet!(Abc12, Sym12, lightmotif::num::U12, "ABCDEFGHIJKX", [A, B, C, D, E, F, G, H, I, J, K, X], X);
// the sixteen IUPAC nucleotide codes (N last, as the wildcard)
user_alphabet!(Iupac, SymIupac, lightmotif::num::U16, "ACGTRYSWKMBDHV-N", [A, C, G, T, R, Y, S, W, K, M, B, D, H, V, Gap, N], N);
// forty codon-like states and a wildcard: more non-wildcard symbols than a 32-lane register or a 32-entry table holds
user_alphabet!(Abc41, Sym41, lightmotif::num::U41, "ABCDEFGHIJKLMNOPQRSTUVWXYZabcdefghijklmn*", [S00, S01, S02, S03, S04, S05, S06, S07, S08, S09, S10, S11, S12, S13, S14, S15, S16, S17, S18, S19, S20, S21, S22, S23, S24, S25, S26, S27, S28, S29, S30, S31, S32, S33, S34, S35, S36, S37, S38, S39, Any], Any);
