//! C04 — striping is a lossless, backend-independent rearrangement of the sequence.

use lightmotif::abc::{Alphabet, Dna, Protein, Symbol};
use lightmotif::num::{PositiveLength, U1, U16, U2, U32, U4};
use lightmotif::pli::{Pipeline, Stripe};
use lightmotif::seq::{EncodedSequence, StripedSequence, SymbolCount};
use proptest::prelude::*;
use serde::{Deserialize, Serialize};

use crate::c01::Cols;
use crate::engine::*;
use crate::gen::*;

#[derive(Clone, Copy, Debug, PartialEq, Eq, Serialize, Deserialize)]
pub enum SBk {
    Generic,
    Avx2,
    Dispatch(Arm),
    /// `EncodedSequence::to_striped` under a forced arm (always a fresh buffer)
    ToStriped(Arm),
}

#[derive(Clone, Debug, Serialize, Deserialize)]
pub enum Op {
    /// stripe a new sequence into the same buffer
    StripeInto(SeqSpec, SBk),
    /// stripe a new sequence into a fresh buffer and continue on it
    StripeFresh(SeqSpec, SBk),
    ConfigureWrap(usize),
    /// `configure(&pssm)` with a scoring matrix of this width
    Configure(usize),
    /// clone and continue on the clone (the original is dropped)
    Clone,
}

#[derive(Clone, Debug, Serialize, Deserialize)]
pub struct Case {
    pub abc: Abc,
    pub cols: Cols,
    pub first: (SeqSpec, SBk),
    pub ops: Vec<Op>,
    /// run the history on an alphabet declared by the caller (`Dssp` below) instead of `abc`: five symbols, the
    /// symbol type's `Default` is its FIRST variant while the alphabet names its last one as `default_symbol()`.
    /// Which of the two fills the cells past the end is not what the property fixes for such an alphabet; that
    /// every striping backend fills them alike is.
    #[serde(default)]
    pub user_abc: bool,
}

/// Secondary-structure states, declared through the public traits as a user of the library would.
#[derive(Clone, Copy, Debug, Default, PartialEq, Eq)]
#[repr(u8)]
pub enum Sec {
    #[default]
    Coil = 0,
    Helix = 1,
    Strand = 2,
    Turn = 3,
    Unknown = 4,
}

impl Symbol for Sec {
    fn as_index(&self) -> usize {
        *self as usize
    }
    fn as_ascii(&self) -> u8 {
        b"CHETX"[*self as usize]
    }
    fn from_ascii(c: u8) -> Result<Self, lightmotif::err::InvalidSymbol> {
        match c {
            b'C' => Ok(Sec::Coil),
            b'H' => Ok(Sec::Helix),
            b'E' => Ok(Sec::Strand),
            b'T' => Ok(Sec::Turn),
            b'X' => Ok(Sec::Unknown),
            _ => Err(lightmotif::err::InvalidSymbol(c as char)),
        }
    }
}

#[derive(Clone, Copy, Debug, Default, PartialEq, Eq)]
pub struct Dssp;

impl Alphabet for Dssp {
    type Symbol = Sec;
    type K = lightmotif::num::U5;
    fn default_symbol() -> Sec {
        Sec::Unknown
    }
    fn symbols() -> &'static [Sec] {
        &[Sec::Coil, Sec::Helix, Sec::Strand, Sec::Turn, Sec::Unknown]
    }
    fn as_str() -> &'static str {
        "CHETX"
    }
}

pub struct History;

fn sbk_strategy(wide: bool) -> BoxedStrategy<SBk> {
    if wide {
        prop_oneof![
            2 => Just(SBk::Generic),
            3 => Just(SBk::Avx2),
            3 => arm_strategy().prop_map(SBk::Dispatch),
            2 => arm_strategy().prop_map(SBk::ToStriped),
        ]
        .boxed()
    } else {
        Just(SBk::Generic).boxed()
    }
}

fn stripe_len(tier: Tier, cols: Cols) -> BoxedStrategy<usize> {
    match cols {
        Cols::U1 | Cols::U2 | Cols::U4 | Cols::U7 | Cols::U8 => (0usize..=90).boxed(),
        Cols::U48 | Cols::U64 => prop_oneof![3 => 0usize..=200, 1 => 200usize..=1500].boxed(),
        Cols::U16 => prop_oneof![3 => 0usize..=100, 1 => 100usize..=700].boxed(),
        Cols::U32 => {
            let hi = tier.pick(2200usize, 40000usize);
            prop_oneof![
                1 => 0usize..=2,
                4 => 0usize..=100,
                4 => 960usize..=1100,
                3 => 100usize..=2200,
                2 => (1usize..=70, 0usize..=2, 0usize..=2).prop_map(|(k, a, b)| (k * 32 + a).saturating_sub(b)),
                1 => 2200usize..=hi,
            ]
            .boxed()
        }
    }
}

fn case_strategy(tier: Tier) -> BoxedStrategy<Case> {
    (abc_strategy(), prop_oneof![2 => Just(Cols::U1), 2 => Just(Cols::U2), 2 => Just(Cols::U4), 4 => Just(Cols::U16), 16 => Just(Cols::U32), 1 => Just(Cols::U7), 1 => Just(Cols::U8), 1 => Just(Cols::U48), 1 => Just(Cols::U64)])
        .prop_flat_map(move |(abc, cols)| {
            let k = abc.k();
            let wide = cols == Cols::U32;
            let seq = move || seq_strategy(k, stripe_len(tier, cols));
            let wrap = prop_oneof![4 => 0usize..=8, 3 => 8usize..=40, 1 => 40usize..=100];
            let op = prop_oneof![
                3 => (seq(), sbk_strategy(wide)).prop_map(|(s, b)| Op::StripeInto(s, b)),
                1 => (seq(), sbk_strategy(wide)).prop_map(|(s, b)| Op::StripeFresh(s, b)),
                5 => wrap.clone().prop_map(Op::ConfigureWrap),
                2 => (0usize..=40).prop_map(Op::Configure),
                1 => Just(Op::Clone),
            ];
            (Just(abc), Just(cols), (seq(), sbk_strategy(wide)), proptest::collection::vec(op, 0..12), prop_oneof![7 => Just(false), 1 => Just(true)])
        })
        .prop_map(|(abc, cols, first, ops, user)| {
            // the caller-declared alphabet has five symbols, like DNA
            let user_abc = user && abc == Abc::Dna;
            Case { abc, cols, first, ops, user_abc }
        })
        .boxed()
}

/// Apply one striping request.
trait Striper<A: Alphabet, C: PositiveLength> {
    fn stripe(bk: SBk, seq: &[A::Symbol], into: Option<&mut StripedSequence<A, C>>) -> Option<StripedSequence<A, C>>;
}

struct Narrow;
impl<A: Alphabet, C: PositiveLength> Striper<A, C> for Narrow {
    fn stripe(_bk: SBk, seq: &[A::Symbol], into: Option<&mut StripedSequence<A, C>>) -> Option<StripedSequence<A, C>> {
        let pli = Pipeline::<A, _>::generic();
        match into {
            Some(dst) => {
                Stripe::<A, C>::stripe_into(&pli, seq, dst);
                None
            }
            None => Some(Stripe::<A, C>::stripe(&pli, seq)),
        }
    }
}

struct Wide;
impl<A: Alphabet> Striper<A, U32> for Wide {
    fn stripe(bk: SBk, seq: &[A::Symbol], into: Option<&mut StripedSequence<A, U32>>) -> Option<StripedSequence<A, U32>> {
        match bk {
            SBk::Generic => <Narrow as Striper<A, U32>>::stripe(bk, seq, into),
            SBk::Avx2 => {
                let pli = Pipeline::<A, _>::avx2().unwrap();
                match into {
                    Some(dst) => {
                        pli.stripe_into(seq, dst);
                        None
                    }
                    None => Some(pli.stripe(seq)),
                }
            }
            SBk::Dispatch(arm) => {
                let _g = arm.force();
                let pli = Pipeline::<A, _>::dispatch();
                match into {
                    Some(dst) => {
                        pli.stripe_into(seq, dst);
                        None
                    }
                    None => Some(pli.stripe(seq)),
                }
            }
            SBk::ToStriped(arm) => {
                let _g = arm.force();
                let enc = EncodedSequence::<A>::new(seq.to_vec());
                let fresh: StripedSequence<A, U32> = enc.to_striped();
                match into {
                    Some(dst) => {
                        *dst = fresh;
                        None
                    }
                    None => Some(fresh),
                }
            }
        }
    }
}

fn verify<A: Alphabet, C: PositiveLength>(step: usize, what: &str, s: &StripedSequence<A, C>, seq: &[u8], wrap: usize, info: &mut CaseInfo) -> Option<Failure> {
    let c = C::USIZE;
    let l = seq.len();
    let r = (l + c - 1) / c;
    let k = A::symbols().len();
    let wild = (k - 1) as u8;
    // an alphabet whose `default_symbol()` is not its symbol type's `Default`: the filler is whatever the generic
    // pipeline puts there (all backends must agree), and the last column of a look-ahead row is left open
    let named = A::default_symbol().as_index() != <A::Symbol as Default>::default().as_index();
    let reference: Option<StripedSequence<A, C>> = if named { Some(Stripe::<A, C>::stripe(&Pipeline::<A, _>::generic(), &syms::<A>(seq))) } else { None };
    let fail = |kind: &str, msg: String| Some(Failure::new(format!("stripe:{}", kind), format!("after op #{} ({}): {}", step, what, msg)));
    if s.len() != l {
        return fail("len", format!("len() = {} expected {}", s.len(), l));
    }
    if s.is_empty() != (l == 0) {
        return fail("is_empty", format!("is_empty() = {} for a sequence of {} symbols ({} look-ahead rows)", s.is_empty(), l, wrap));
    }
    if s.wrap() != wrap {
        return fail("wrap", format!("wrap() = {} expected {}", s.wrap(), wrap));
    }
    if s.matrix().rows() != r + wrap {
        return fail("rows", format!("{} matrix rows, expected R + wrap = {} + {}", s.matrix().rows(), r, wrap));
    }
    let cell = |row: usize, col: usize| s.matrix()[row][col].as_index() as u8;
    for row in 0..r {
        for col in 0..c {
            let i = col * r + row;
            let want = if i < l {
                seq[i]
            } else if let Some(rf) = &reference {
                rf.matrix()[row][col].as_index() as u8
            } else {
                wild
            };
            info.comparisons += 1;
            if cell(row, col) != want {
                if named && i >= l {
                    return fail(
                        "cell:backends-fill-differently",
                        format!("cell (row {}, col {}) past the end holds symbol {} but the generic pipeline striping the same sequence puts {} there (L={}, R={})", row, col, cell(row, col), want, l, r),
                    );
                }
                return fail("cell", format!("cell (row {}, col {}) holds symbol {} expected {} (L={}, R={})", row, col, cell(row, col), want, l, r));
            }
        }
    }
    for kx in 0..wrap {
        for col in 0..c {
            // (for such an alphabet also the look-ahead rows beyond R, copies of rows that are themselves being
            // built from default-initialised cells)
            if named && (col + 1 == c || kx >= r) {
                continue;
            }
            let want = if col + 1 < c { cell(kx, col + 1) } else { wild };
            info.comparisons += 1;
            if cell(r + kx, col) != want {
                return fail(
                    "lookahead",
                    format!("look-ahead row {} col {} holds {} expected {} (row {} shifted left; L={}, R={}, wrap={})", kx, col, cell(r + kx, col), want, kx, l, r, wrap),
                );
            }
        }
    }
    for i in 0..l {
        if s[i].as_index() as u8 != seq[i] {
            return fail("index", format!("striped[{}] = {} expected {}", i, s[i].as_index(), seq[i]));
        }
    }
    let mut counts = vec![0usize; k];
    for &x in seq {
        counts[x as usize] += 1;
    }
    let got = SymbolCount::<A>::count_symbols(s);
    if got.as_slice() != counts.as_slice() {
        return fail("count_symbols", format!("{:?} expected {:?}", got.as_slice(), counts));
    }
    for (j, sym) in A::symbols().iter().enumerate() {
        let n = SymbolCount::<A>::count_symbol(s, *sym);
        if n != counts[j] {
            return fail("count_symbol", format!("count_symbol({}) = {} expected {}", j, n, counts[j]));
        }
    }
    None
}

fn run<A: Alphabet, C: PositiveLength, S: Striper<A, C>>(case: &Case) -> Verdict {
    let k = case.abc.k();
    let mut info = CaseInfo::new();
    let mut model = case.first.0.expand(k);
    let mut wrap = 0usize;
    let mut cur: StripedSequence<A, C> = S::stripe(case.first.1, &syms::<A>(&model), None).unwrap();
    if let Some(f) = verify(0, "initial stripe", &cur, &model, wrap, &mut info) {
        return Verdict::Fail(f);
    }
    let mut reused = 0;
    let mut wrap_ops_after_stripe = 0;
    let c = C::USIZE;
    for (i, op) in case.ops.iter().enumerate() {
        let what;
        match op {
            Op::StripeInto(seq, bk) => {
                model = seq.expand(k);
                wrap = 0;
                S::stripe(*bk, &syms::<A>(&model), Some(&mut cur));
                reused += 1;
                what = "stripe_into";
            }
            Op::StripeFresh(seq, bk) => {
                model = seq.expand(k);
                wrap = 0;
                cur = S::stripe(*bk, &syms::<A>(&model), None).unwrap();
                what = "stripe";
            }
            Op::ConfigureWrap(m) => {
                let r = (model.len() + c - 1) / c;
                info.class_if(*m > r, "wrap>R");
                info.class_if(*m < wrap, "shrinking-m");
                cur.configure_wrap(*m);
                wrap = wrap.max(*m);
                wrap_ops_after_stripe += 1;
                what = "configure_wrap";
            }
            Op::Configure(width) => {
                let pssm = build_pssm::<A>(&MatSpec { rows: vec![vec![Fl(0.0); k]; *width], bg: BgSpec::Uniform, regime: "zero".into() });
                cur.configure(&pssm);
                if *width > 0 {
                    wrap = wrap.max(*width - 1);
                }
                wrap_ops_after_stripe += 1;
                what = "configure";
            }
            Op::Clone => {
                let cl = cur.clone();
                cur = cl;
                what = "clone";
            }
        }
        if let Some(f) = verify(i + 1, what, &cur, &model, wrap, &mut info) {
            return Verdict::Fail(f);
        }
    }
    // the by-value ways out (`into_matrix`, `DenseMatrix::from`) hand over the very matrix `matrix()` shows
    {
        let rows_now = cur.matrix().rows();
        let a = cur.clone().into_matrix();
        let b: lightmotif::dense::DenseMatrix<A::Symbol, C> = cur.clone().into();
        for (name, mx) in [("into_matrix", &a), ("DenseMatrix::from", &b)] {
            if mx.rows() != rows_now || (0..rows_now).any(|i| mx[i].iter().zip(cur.matrix()[i].iter()).any(|(x, y)| x.as_index() != y.as_index())) {
                return Verdict::Fail(Failure::new("stripe:by-value", format!("{}: {} rows against {} of matrix(), or a cell differs", name, mx.rows(), rows_now)));
            }
        }
    }
    let l = model.len();
    let r = (l + c - 1) / c;
    info.nontrivial = r >= 2 && wrap_ops_after_stripe >= 1;
    info.class_if(reused >= 2, "buffer-reused>=2");
    info.class_if(case.ops.iter().any(|o| matches!(o, Op::StripeInto(s, _) | Op::StripeFresh(s, _) if s.len() >= 1024)) || case.first.0.len() >= 1024, "L>=1024");
    info.class_if(l == 0, "final-L=0");
    info.class(match case.cols {
        Cols::U1 => "C=1",
        Cols::U2 => "C=2",
        Cols::U4 => "C=4",
        Cols::U16 => "C=16",
        Cols::U7 => "C=7",
        Cols::U8 => "C=8",
        Cols::U48 => "C=48",
        Cols::U64 => "C=64",
        Cols::U32 => "C=32",
    });
    info.class_if(case.abc == Abc::Protein, "protein");
    info.class_if(case.user_abc, "caller-declared-alphabet");
    let uses = |f: &dyn Fn(&SBk) -> bool| f(&case.first.1) || case.ops.iter().any(|o| matches!(o, Op::StripeInto(_, b) | Op::StripeFresh(_, b) if f(b)));
    info.class_if(uses(&|b| matches!(b, SBk::Avx2 | SBk::Dispatch(Arm::Avx2) | SBk::ToStriped(Arm::Avx2))), "avx2-striping");
    info.class_if(uses(&|b| matches!(b, SBk::Dispatch(Arm::Generic | Arm::Sse2) | SBk::ToStriped(Arm::Generic | Arm::Sse2))), "dispatch-fallback-striping");
    Verdict::Pass(info)
}

impl Sub for History {
    type Case = Case;
    fn name(&self) -> &'static str {
        "history"
    }
    fn rule(&self) -> &'static str {
        "alphabet x column count {1,2,4,16,32} x history of up to 12 ops on one buffer (stripe_into / stripe with generic, AVX2, dispatcher forced to each arm, EncodedSequence::to_striped; one case in eight on a five-symbol alphabet declared by the caller whose default_symbol() is not its symbol type's Default - there the cells past the end must be what the generic pipeline puts there, whichever backend striped; configure_wrap(m) growing / shrinking / > R; configure(pssm); clone); after EVERY op the whole matrix, look-ahead rows, len, wrap, Index and symbol counts are compared with a model (linear sequence, running max of requested wrap); sweep = every length 0..=1100 (quick) / 0..=2200 (thorough) striped by AVX2 into a reused buffer; non-trivial = R >= 2 and >= 1 wrap op after a stripe"
    }
    fn cases(&self, tier: Tier) -> u64 {
        tier.pick(60_000, 2_000_000)
    }
    fn strategy(&self, tier: Tier) -> BoxedStrategy<Case> {
        case_strategy(tier)
    }
    fn sweep(&self, tier: Tier) -> Vec<Case> {
        let max = tier.pick(1100usize, 2200usize);
        let mut out = Vec::new();
        for l in 0..=max {
            out.push(Case {
                abc: if l % 5 == 0 { Abc::Protein } else { Abc::Dna },
                cols: Cols::U32,
                first: (SeqSpec::Seeded { len: (l * 7 + 3) % 1500, seed: l as u64, wild_pct: 2 }, SBk::Generic),
                ops: vec![
                    Op::ConfigureWrap(5),
                    Op::StripeInto(SeqSpec::Seeded { len: l, seed: l as u64 + 99, wild_pct: 2 }, SBk::Avx2),
                    Op::ConfigureWrap(l % 45),
                    Op::StripeInto(SeqSpec::Seeded { len: l, seed: l as u64 + 99, wild_pct: 0 }, SBk::Dispatch(Arm::Avx2)),
                ],
                user_abc: l % 5 == 3,
            });
        }
        // long runs of one symbol: at least 256 / 512 consecutive ROWS of a column hold the same symbol (8-bit
        // per-lane match counters of a vectorised count), alone and inside an otherwise mixed sequence
        for abc in [Abc::Dna, Abc::Protein] {
            for (len, sym) in [(8161usize, 0u8), (8192, 4), (8193, 2), (16321, 1), (16384 + 5, 3), (20000, 0)] {
                out.push(Case {
                    abc,
                    cols: Cols::U32,
                    first: (SeqSpec::Homopolymer { len, sym }, SBk::Avx2),
                    ops: vec![Op::ConfigureWrap(7)],
                    user_abc: false,
                });
                // a 600-symbol run inside a mixed sequence: Tandem with a long unit
                let mut unit: Vec<u8> = (0..len.min(9000)).map(|i| ((i * 7 + i / 5) % 4) as u8).collect();
                let at = unit.len() / 3;
                let end = (at + 700).min(unit.len());
                for x in unit[at..end].iter_mut() {
                    *x = sym % 4;
                }
                out.push(Case { abc, cols: Cols::U32, first: (SeqSpec::Tandem { unit, len: len + 999 }, SBk::Generic), ops: vec![Op::Configure(12)], user_abc: false });
            }
        }
        // more than 65536 striped rows (a 16-bit row counter), every striping backend, then a shorter re-use
        let l = 32 * 65536 + 37;
        for bk in [SBk::Avx2, SBk::Generic, SBk::Dispatch(Arm::Sse2), SBk::ToStriped(Arm::Avx2)] {
            out.push(Case {
                abc: Abc::Dna,
                cols: Cols::U32,
                first: (SeqSpec::Seeded { len: l, seed: 65536, wild_pct: 1 }, bk),
                ops: vec![Op::ConfigureWrap(9), Op::StripeInto(SeqSpec::Seeded { len: 32 * 65535 + 1, seed: 7, wild_pct: 1 }, SBk::Avx2)],
                user_abc: false,
            });
        }
        out
    }
    fn check(&self, case: &Case, _cx: &Cx) -> Verdict {
        if case.user_abc {
            return match case.cols {
                Cols::U1 => run::<Dssp, U1, Narrow>(case),
                Cols::U2 => run::<Dssp, U2, Narrow>(case),
                Cols::U4 => run::<Dssp, U4, Narrow>(case),
                Cols::U16 => run::<Dssp, U16, Narrow>(case),
                Cols::U32 => run::<Dssp, U32, Wide>(case),
                Cols::U7 => run::<Dssp, lightmotif::num::U7, Narrow>(case),
                Cols::U8 => run::<Dssp, lightmotif::num::U8, Narrow>(case),
                Cols::U48 => run::<Dssp, lightmotif::num::U48, Narrow>(case),
                Cols::U64 => run::<Dssp, lightmotif::num::U64, Narrow>(case),
            };
        }
        match (case.abc, case.cols) {
            (Abc::Dna, Cols::U1) => run::<Dna, U1, Narrow>(case),
            (Abc::Dna, Cols::U2) => run::<Dna, U2, Narrow>(case),
            (Abc::Dna, Cols::U4) => run::<Dna, U4, Narrow>(case),
            (Abc::Dna, Cols::U16) => run::<Dna, U16, Narrow>(case),
            (Abc::Dna, Cols::U32) => run::<Dna, U32, Wide>(case),
            (Abc::Protein, Cols::U1) => run::<Protein, U1, Narrow>(case),
            (Abc::Protein, Cols::U2) => run::<Protein, U2, Narrow>(case),
            (Abc::Protein, Cols::U4) => run::<Protein, U4, Narrow>(case),
            (Abc::Protein, Cols::U16) => run::<Protein, U16, Narrow>(case),
            (Abc::Protein, Cols::U32) => run::<Protein, U32, Wide>(case),
            (Abc::Dna, Cols::U7) => run::<Dna, lightmotif::num::U7, Narrow>(case),
            (Abc::Dna, Cols::U8) => run::<Dna, lightmotif::num::U8, Narrow>(case),
            (Abc::Dna, Cols::U48) => run::<Dna, lightmotif::num::U48, Narrow>(case),
            (Abc::Dna, Cols::U64) => run::<Dna, lightmotif::num::U64, Narrow>(case),
            (Abc::Protein, Cols::U7) => run::<Protein, lightmotif::num::U7, Narrow>(case),
            (Abc::Protein, Cols::U8) => run::<Protein, lightmotif::num::U8, Narrow>(case),
            (Abc::Protein, Cols::U48) => run::<Protein, lightmotif::num::U48, Narrow>(case),
            (Abc::Protein, Cols::U64) => run::<Protein, lightmotif::num::U64, Narrow>(case),
        }
    }
}

pub fn property() -> Property {
    Property {
        id: "C04",
        subs: vec![Box::new(History)],
        assumptions: vec![
            "look-ahead row k is compared with MATRIX row k shifted left (for k >= R that is look-ahead row k-R): the single rule that also covers wrap > R",
            "a new stripe resets the wrap count to 0 (StripedSequence::new); configure_wrap(m) keeps max(previous, m)",
            "NEON striping not executed on this host",
        ],
    }
}
