#![allow(dead_code)]
//! lmcheck — property-based checks for althonos/lightmotif (see /verif/DESIGN.md).
//!
//!   lmcheck <ID> quick|thorough     run one property's replay + generated tiers
//!   lmcheck replay <file>           re-execute one replay file through the plain check

#[macro_use]
mod engine;
#[cfg(feature = "guard-alloc")]
mod guard;
#[cfg(feature = "guard-alloc")]
#[global_allocator]
static GLOBAL: guard::GuardAlloc = guard::GuardAlloc;
#[macro_use]
mod gen;
mod c01;
mod c02;
mod c04;
mod c05;
mod c07;
mod c08;
mod c09;
mod c10;
mod c11;
mod c12;
mod c14;
mod c15;
mod tail;
#[allow(dead_code)]
mod userabc;
mod c16;
mod c19;

use std::path::PathBuf;

use engine::*;

fn properties() -> Vec<Property> {
    vec![c01::property(), c02::property02(), c02::property03(), c07::property(), c08::property(), c04::property(), c05::property(), c19::property(), c09::property(), c10::property(), c16::property(), c11::property(), c12::property12(), c12::property13(), c14::property(), c15::property()]
}

fn main() {
    install_panic_hook();
    let args: Vec<String> = std::env::args().collect();
    let verif_dir = PathBuf::from(std::env::var("VERIF_DIR").unwrap_or_else(|_| "/verif".into()));
    if args.len() >= 3 && args[1] == "gen-corpus" {
        gen_corpus(&PathBuf::from(&args[2]));
        return;
    }
    if args.len() >= 3 && args[1] == "replay" {
        let file = PathBuf::from(&args[2]);
        if std::env::var("LMCHECK_CHILD").is_err() && isolated_replay(&file) {
            std::process::exit(replay_in_child(&file));
        }
        std::process::exit(replay_file(&properties(), &file));
    }
    if args.len() < 3 {
        eprintln!("usage: lmcheck <ID> quick|thorough | lmcheck replay <file>");
        std::process::exit(2);
    }
    let tier = match args[2].as_str() {
        "quick" => Tier::Quick,
        "thorough" => Tier::Thorough,
        other => {
            eprintln!("unknown tier {other}");
            std::process::exit(2);
        }
    };
    let seed = std::env::var("VERIF_SEED").ok().and_then(|s| s.parse::<u64>().ok()).unwrap_or(1);
    let threads = std::env::var("VERIF_THREADS")
        .ok()
        .and_then(|s| s.parse::<usize>().ok())
        .unwrap_or_else(|| std::thread::available_parallelism().map(|n| n.get()).unwrap_or(8).min(16));
    let scale = std::env::var("VERIF_SCALE").ok().and_then(|s| s.parse::<f64>().ok()).unwrap_or(1.0);
    let cfg = RunCfg { tier, seed, threads, verif_dir, scale };
    let props = properties();
    let Some(prop) = props.iter().find(|p| p.id == args[1]) else {
        eprintln!("unknown property {}", args[1]);
        std::process::exit(2);
    };
    if std::env::var("LMCHECK_CHILD").is_err() {
        std::process::exit(run_in_child(prop.id, &args[2], &cfg));
    }
    // wall-clock / memory ceiling: inconclusive (exit 2), never a violation
    start_watchdog(tier.pick(900, 6 * 3600), 24_000);
    std::process::exit(run_property(prop, &cfg));
}

// --- process isolation ---------------------------------------------------------
//
// Some failures cannot be caught inside the process: a stack overflow (unbounded recursion on a long
// input), a segmentation fault behind a safe API, any fatal signal. Every property therefore runs in a child
// process. If the child dies, the run is repeated with per-shard trace files switched on (same seeds: the
// same cases), the cases the shards were working on are replayed, each in its own child, and the one that
// dies again is reported as the violation (no tracing cost on a run that does not die).

fn isolated_replay(file: &std::path::Path) -> bool {
    std::fs::read_to_string(file).ok().and_then(|s| serde_json::from_str::<ReplayFile>(&s).ok()).is_some()
}

fn died(status: &std::process::ExitStatus) -> bool {
    !matches!(status.code(), Some(0) | Some(1) | Some(2))
}

fn death_signature(status: &std::process::ExitStatus, stderr: &str) -> (String, String) {
    use std::os::unix::process::ExitStatusExt;
    let what = if stderr.contains("has overflowed its stack") {
        "stack-overflow".to_string()
    } else if let Some(sig) = status.signal() {
        format!("signal-{}", sig)
    } else {
        format!("exit-code-{}", status.code().unwrap_or(-1))
    };
    let line = stderr.lines().rev().find(|l| !l.trim().is_empty()).unwrap_or("").chars().take(200).collect::<String>();
    (format!("process-died:{}", what), format!("the process running this case was killed ({:?}); last output: {}", status, line))
}

/// `lmcheck replay <file>` for an isolated property: the replay itself may kill the process.
fn replay_in_child(file: &std::path::Path) -> i32 {
    let exe = std::env::current_exe().expect("own path");
    let out = std::process::Command::new(exe).arg("replay").arg(file).env("LMCHECK_CHILD", "1").output().expect("cannot start the child process");
    print!("{}", String::from_utf8_lossy(&out.stdout));
    if !died(&out.status) {
        eprint!("{}", String::from_utf8_lossy(&out.stderr));
        return out.status.code().unwrap_or(2);
    }
    let rf: Option<ReplayFile> = std::fs::read_to_string(file).ok().and_then(|s| serde_json::from_str(&s).ok());
    let (sig, msg) = death_signature(&out.status, &String::from_utf8_lossy(&out.stderr));
    println!("{} :: {}", sig, msg);
    println!("VIOLATION property={} replay={}", rf.map(|r| r.property).unwrap_or_default(), file.display());
    1
}

fn run_in_child(id: &str, tier: &str, cfg: &RunCfg) -> i32 {
    use std::process::{Command, Stdio};
    let t0 = std::time::Instant::now();
    let exe = std::env::current_exe().expect("own path");
    let status = Command::new(&exe).arg(id).arg(tier).env("LMCHECK_CHILD", "1").stdin(Stdio::null()).status().expect("cannot start the child process");
    if !died(&status) {
        return status.code().unwrap_or(2);
    }
    eprintln!("the checking process was killed ({:?}); running it again with case tracing to find the case", status);
    let trace = cfg.verif_dir.join("replays").join(format!(".trace-{}-{}", id, std::process::id()));
    let _ = std::fs::remove_dir_all(&trace);
    std::fs::create_dir_all(&trace).expect("cannot create the trace directory");
    let status = Command::new(&exe).arg(id).arg(tier).env("LMCHECK_CHILD", "1").env("LMCHECK_TRACE", &trace).stdin(Stdio::null()).stdout(Stdio::null()).status().expect("cannot start the child process");
    if !died(&status) {
        let _ = std::fs::remove_dir_all(&trace);
        eprintln!("INCONCLUSIVE: the checking process was killed once and survived the traced re-run (not a violation)");
        return 2;
    }
    // the child died: which case was it?
    let mut files: Vec<PathBuf> = std::fs::read_dir(&trace).map(|d| d.filter_map(|e| e.ok().map(|e| e.path())).collect()).unwrap_or_default();
    files.sort();
    let mut code = 2;
    let mut replayed = 0u64;
    let mut sample = serde_json::Value::Null;
    for f in &files {
        let out = match Command::new(&exe).arg("replay").arg(f).env("LMCHECK_CHILD", "1").output() {
            Ok(o) => o,
            Err(_) => continue,
        };
        replayed += 1;
        if died(&out.status) {
            let (sig, msg) = death_signature(&out.status, &String::from_utf8_lossy(&out.stderr));
            let text = std::fs::read_to_string(f).unwrap_or_default();
            if let Ok(mut rf) = serde_json::from_str::<ReplayFile>(&text) {
                rf.signature = sig.clone();
                rf.message = msg.clone();
                let dir = cfg.verif_dir.join("replays").join(id);
                let _ = std::fs::create_dir_all(&dir);
                let body = serde_json::to_string_pretty(&rf).unwrap_or(text);
                let dst = dir.join(format!("{}-died-{:016x}.json", rf.sub, engine::splitmix64(body.len() as u64 ^ body.bytes().fold(0u64, |a, b| a.wrapping_mul(131).wrapping_add(b as u64)))));
                let _ = std::fs::write(&dst, body);
                println!("[{}/{}] {} :: {}", id, rf.sub, sig, msg);
                println!("VIOLATION property={} replay={}", id, dst.display());
                sample = engine::abbreviate(&rf.case);
                code = 1;
                break;
            }
        }
    }
    if code == 2 {
        eprintln!("INCONCLUSIVE: the checking process was killed ({:?}) and none of the {} traced cases kills it again when replayed alone (not a violation)", status, files.len());
    }
    // the child could not write its evidence: say what is known
    let ev = serde_json::json!({
        "property_id": id, "tier": tier, "seed": cfg.seed, "level": "exploration", "wall_s": t0.elapsed().as_secs_f64(),
        "violations": if code == 1 { 1 } else { 0 },
        "coverage": {
            "evaluations": replayed, "distinct_nontrivial": 0, "exhaustive": false,
            "rule": "the checking process was killed by a fatal signal before it could report; the cases its shards were working on were replayed one per child process to find the one that kills the process",
            "samples": [sample],
        },
    });
    let _ = std::fs::create_dir_all(cfg.verif_dir.join("evidence"));
    let _ = std::fs::write(cfg.verif_dir.join("evidence").join(format!("{}.json", id)), serde_json::to_string_pretty(&ev).unwrap());
    let _ = std::fs::remove_dir_all(&trace);
    code
}

/// Write the committed seed corpora of the two fuzz targets (deterministic).
fn gen_corpus(dir: &std::path::Path) {
    use proptest::strategy::{Strategy, ValueTree};
    use proptest::test_runner::{Config, RngSeed, TestRunner};
    let mut runner = TestRunner::new(Config { rng_seed: RngSeed::Fixed(20260926), failure_persistence: None, ..Config::default() });
    // --- c15_readers: byte 0 = reader, byte 1 = chunking, rest = file
    let d15 = dir.join("c15_readers");
    std::fs::create_dir_all(&d15).unwrap();
    let sel = |f: c14::Format, abc: gen::Abc| -> u8 {
        match (f, abc) {
            (c14::Format::Jaspar, _) => 0,
            (c14::Format::Jaspar16, gen::Abc::Dna) => 1,
            (c14::Format::Jaspar16, gen::Abc::Protein) => 2,
            (c14::Format::Transfac, gen::Abc::Dna) => 3,
            (c14::Format::Transfac, gen::Abc::Protein) => 4,
            (c14::Format::Uniprobe, gen::Abc::Dna) => 5,
            (c14::Format::Uniprobe, gen::Abc::Protein) => 6,
        }
    };
    let strat = c14::file_strategy(3);
    for i in 0..40 {
        let f = strat.new_tree(&mut runner).unwrap().current();
        let mut bytes = vec![sel(f.format, f.abc), (i % 6) as u8];
        bytes.extend(c14::write_file(&f));
        if bytes.len() <= 4096 {
            std::fs::write(d15.join(format!("gen-{:02}", i)), bytes).unwrap();
        }
    }
    let repo = std::env::var("VERIF_REPO").unwrap_or_else(|_| "/repo".into());
    for (p, s) in [
        ("lightmotif-io/tests/MA0001.3.pfm", 1u8),
        ("lightmotif-io/tests/MA0017.3.pfm", 1),
        ("lightmotif-io/tests/M00005.transfac", 3),
        ("lightmotif-io/tests/MA0001.2.transfac", 3),
        ("lightmotif-io/tests/MX000001.transfac", 3),
        ("lightmotif-io/tests/Cha4.uniprobe", 5),
        ("lightmotif-io/tests/Gal4.uniprobe", 5),
        ("lightmotif-io/tests/demo.uniprobe", 5),
    ] {
        if let Ok(b) = std::fs::read(format!("{}/{}", repo, p)) {
            for chunk in [0u8, 1] {
                let mut bytes = vec![s, chunk];
                bytes.extend(&b);
                let name = p.rsplit('/').next().unwrap();
                std::fs::write(d15.join(format!("repo-{}-{}", name, chunk)), bytes).unwrap();
            }
        }
    }
    std::fs::write(d15.join("empty-jaspar"), [0u8, 0]).unwrap();
    std::fs::write(d15.join("empty-uniprobe"), [5u8, 1]).unwrap();
    // --- c06_ops: pseudo-random op streams of several lengths
    let d06 = dir.join("c06_ops");
    std::fs::create_dir_all(&d06).unwrap();
    let mut s = 0xC06u64;
    for i in 0..48 {
        let n = 24 + (i % 8) * 24;
        let bytes: Vec<u8> = (0..n)
            .map(|_| {
                s = engine::splitmix64(s);
                (s >> 24) as u8
            })
            .collect();
        std::fs::write(d06.join(format!("rand-{:02}", i)), bytes).unwrap();
    }
}
