#![allow(dead_code)]
//! lmcheck — property-based checks for althonos/lightmotif (see /verif/DESIGN.md).
//!
//!   lmcheck <ID> quick|thorough     run one property's replay + generated tiers
//!   lmcheck replay <file>           re-execute one replay file through the plain check

#[macro_use]
mod engine;
#[cfg(feature = "guard-alloc")]
mod guard;
#[cfg(feature = "guard-alloc")]
#[global_allocator]
static GLOBAL: guard::GuardAlloc = guard::GuardAlloc;
#[macro_use]
mod gen;
mod c01;
mod c02;
mod c04;
mod c05;
mod c07;
mod c08;
mod c09;
mod c10;
mod c11;
mod c12;
mod c14;
mod c15;
mod tail;
mod c16;
mod c19;

use std::path::PathBuf;

use engine::*;

fn properties() -> Vec<Property> {
    vec![c01::property(), c02::property02(), c02::property03(), c07::property(), c08::property(), c04::property(), c05::property(), c19::property(), c09::property(), c10::property(), c16::property(), c11::property(), c12::property12(), c12::property13(), c14::property(), c15::property()]
}

fn main() {
    install_panic_hook();
    let args: Vec<String> = std::env::args().collect();
    let verif_dir = PathBuf::from(std::env::var("VERIF_DIR").unwrap_or_else(|_| "/verif".into()));
    if args.len() >= 3 && args[1] == "gen-corpus" {
        gen_corpus(&PathBuf::from(&args[2]));
        return;
    }
    if args.len() >= 3 && args[1] == "replay" {
        std::process::exit(replay_file(&properties(), &PathBuf::from(&args[2])));
    }
    if args.len() < 3 {
        eprintln!("usage: lmcheck <ID> quick|thorough | lmcheck replay <file>");
        std::process::exit(2);
    }
    let tier = match args[2].as_str() {
        "quick" => Tier::Quick,
        "thorough" => Tier::Thorough,
        other => {
            eprintln!("unknown tier {other}");
            std::process::exit(2);
        }
    };
    let seed = std::env::var("VERIF_SEED").ok().and_then(|s| s.parse::<u64>().ok()).unwrap_or(1);
    let threads = std::env::var("VERIF_THREADS")
        .ok()
        .and_then(|s| s.parse::<usize>().ok())
        .unwrap_or_else(|| std::thread::available_parallelism().map(|n| n.get()).unwrap_or(8).min(16));
    let scale = std::env::var("VERIF_SCALE").ok().and_then(|s| s.parse::<f64>().ok()).unwrap_or(1.0);
    let cfg = RunCfg { tier, seed, threads, verif_dir, scale };
    let props = properties();
    let Some(prop) = props.iter().find(|p| p.id == args[1]) else {
        eprintln!("unknown property {}", args[1]);
        std::process::exit(2);
    };
    // wall-clock / memory ceiling: inconclusive (exit 2), never a violation
    start_watchdog(tier.pick(900, 6 * 3600), 24_000);
    std::process::exit(run_property(prop, &cfg));
}

/// Write the committed seed corpora of the two fuzz targets (deterministic).
fn gen_corpus(dir: &std::path::Path) {
    use proptest::strategy::{Strategy, ValueTree};
    use proptest::test_runner::{Config, RngSeed, TestRunner};
    let mut runner = TestRunner::new(Config { rng_seed: RngSeed::Fixed(20260926), failure_persistence: None, ..Config::default() });
    // --- c15_readers: byte 0 = reader, byte 1 = chunking, rest = file
    let d15 = dir.join("c15_readers");
    std::fs::create_dir_all(&d15).unwrap();
    let sel = |f: c14::Format, abc: gen::Abc| -> u8 {
        match (f, abc) {
            (c14::Format::Jaspar, _) => 0,
            (c14::Format::Jaspar16, gen::Abc::Dna) => 1,
            (c14::Format::Jaspar16, gen::Abc::Protein) => 2,
            (c14::Format::Transfac, gen::Abc::Dna) => 3,
            (c14::Format::Transfac, gen::Abc::Protein) => 4,
            (c14::Format::Uniprobe, gen::Abc::Dna) => 5,
            (c14::Format::Uniprobe, gen::Abc::Protein) => 6,
        }
    };
    let strat = c14::file_strategy(3);
    for i in 0..40 {
        let f = strat.new_tree(&mut runner).unwrap().current();
        let mut bytes = vec![sel(f.format, f.abc), (i % 6) as u8];
        bytes.extend(c14::write_file(&f));
        if bytes.len() <= 4096 {
            std::fs::write(d15.join(format!("gen-{:02}", i)), bytes).unwrap();
        }
    }
    let repo = std::env::var("VERIF_REPO").unwrap_or_else(|_| "/repo".into());
    for (p, s) in [
        ("lightmotif-io/tests/MA0001.3.pfm", 1u8),
        ("lightmotif-io/tests/MA0017.3.pfm", 1),
        ("lightmotif-io/tests/M00005.transfac", 3),
        ("lightmotif-io/tests/MA0001.2.transfac", 3),
        ("lightmotif-io/tests/MX000001.transfac", 3),
        ("lightmotif-io/tests/Cha4.uniprobe", 5),
        ("lightmotif-io/tests/Gal4.uniprobe", 5),
        ("lightmotif-io/tests/demo.uniprobe", 5),
    ] {
        if let Ok(b) = std::fs::read(format!("{}/{}", repo, p)) {
            for chunk in [0u8, 1] {
                let mut bytes = vec![s, chunk];
                bytes.extend(&b);
                let name = p.rsplit('/').next().unwrap();
                std::fs::write(d15.join(format!("repo-{}-{}", name, chunk)), bytes).unwrap();
            }
        }
    }
    std::fs::write(d15.join("empty-jaspar"), [0u8, 0]).unwrap();
    std::fs::write(d15.join("empty-uniprobe"), [5u8, 1]).unwrap();
    // --- c06_ops: pseudo-random op streams of several lengths
    let d06 = dir.join("c06_ops");
    std::fs::create_dir_all(&d06).unwrap();
    let mut s = 0xC06u64;
    for i in 0..48 {
        let n = 24 + (i % 8) * 24;
        let bytes: Vec<u8> = (0..n)
            .map(|_| {
                s = engine::splitmix64(s);
                (s >> 24) as u8
            })
            .collect();
        std::fs::write(d06.join(format!("rand-{:02}", i)), bytes).unwrap();
    }
}
