#![allow(dead_code)]
//! lmcheck — property-based checks for althonos/lightmotif (see /verif/DESIGN.md).
//!
//!   lmcheck <ID> quick|thorough     run one property's replay + generated tiers
//!   lmcheck replay <file>           re-execute one replay file through the plain check

#[macro_use]
mod engine;
#[macro_use]
mod gen;
mod c01;
mod c02;
mod c04;
mod c05;
mod c07;
mod c08;
mod c09;
mod c10;
mod c11;
mod c12;
mod c14;
mod c15;
mod tail;
mod c16;
mod c19;

use std::path::PathBuf;

use engine::*;

fn properties() -> Vec<Property> {
    vec![c01::property(), c02::property02(), c02::property03(), c07::property(), c08::property(), c04::property(), c05::property(), c19::property(), c09::property(), c10::property(), c16::property(), c11::property(), c12::property12(), c12::property13(), c14::property(), c15::property()]
}

fn main() {
    install_panic_hook();
    let args: Vec<String> = std::env::args().collect();
    let verif_dir = PathBuf::from(std::env::var("VERIF_DIR").unwrap_or_else(|_| "/verif".into()));
    if args.len() >= 3 && args[1] == "replay" {
        std::process::exit(replay_file(&properties(), &PathBuf::from(&args[2])));
    }
    if args.len() < 3 {
        eprintln!("usage: lmcheck <ID> quick|thorough | lmcheck replay <file>");
        std::process::exit(2);
    }
    let tier = match args[2].as_str() {
        "quick" => Tier::Quick,
        "thorough" => Tier::Thorough,
        other => {
            eprintln!("unknown tier {other}");
            std::process::exit(2);
        }
    };
    let seed = std::env::var("VERIF_SEED").ok().and_then(|s| s.parse::<u64>().ok()).unwrap_or(1);
    let threads = std::env::var("VERIF_THREADS")
        .ok()
        .and_then(|s| s.parse::<usize>().ok())
        .unwrap_or_else(|| std::thread::available_parallelism().map(|n| n.get()).unwrap_or(8).min(16));
    let scale = std::env::var("VERIF_SCALE").ok().and_then(|s| s.parse::<f64>().ok()).unwrap_or(1.0);
    let cfg = RunCfg { tier, seed, threads, verif_dir, scale };
    let props = properties();
    let Some(prop) = props.iter().find(|p| p.id == args[1]) else {
        eprintln!("unknown property {}", args[1]);
        std::process::exit(2);
    };
    // wall-clock / memory ceiling: inconclusive (exit 2), never a violation
    start_watchdog(tier.pick(900, 6 * 3600), 24_000);
    std::process::exit(run_property(prop, &cfg));
}
