//! C09 — count -> frequency -> weight -> log-odds conversions obey their definitions.

use generic_array::GenericArray;
use lightmotif::abc::{Alphabet, Background, Pseudocounts};
use lightmotif::dense::DenseMatrix;
use lightmotif::pwm::{CountMatrix, FrequencyMatrix};
use lightmotif::seq::EncodedSequence;
use proptest::prelude::*;
use serde::{Deserialize, Serialize};

use crate::engine::*;
use crate::gen::*;

fn close(a: f64, b: f64, tol: f64) -> bool {
    if a == b {
        return true; // covers equal infinities
    }
    if !a.is_finite() || !b.is_finite() {
        return false;
    }
    (a - b).abs() <= tol * (1.0 + a.abs().max(b.abs()))
}

// ---------------------------------------------------------------------------
// from_sequences
// ---------------------------------------------------------------------------

#[derive(Clone, Debug, Serialize, Deserialize)]
pub struct SeqsCase {
    pub abc: Abc,
    pub seqs: Vec<Vec<u8>>,
    /// the whole list is given `repeat` more times: alignments of tens of thousands of sequences (counts past
    /// 255 and 65535) without writing them out
    #[serde(default)]
    pub repeat: usize,
}

pub struct FromSequences;

impl Sub for FromSequences {
    type Case = SeqsCase;
    fn name(&self) -> &'static str {
        "from_sequences"
    }
    fn rule(&self) -> &'static str {
        "0..20 sequences of equal or unequal lengths (0..30), both alphabets; sweep = one sequence given 255 / 256 / 257 / 65535 / 65536 / 65537 / 100000 / 131073 times and a pair of sequences given 40001 times; CountMatrix::from_sequences must give the occurrence counts and sequence count, or InvalidData for unequal lengths; non-trivial = >= 2 sequences of length >= 2"
    }
    fn cases(&self, tier: Tier) -> u64 {
        tier.pick(30_000, 600_000)
    }
    fn strategy(&self, _tier: Tier) -> BoxedStrategy<SeqsCase> {
        abc_strategy()
            .prop_flat_map(|abc| {
                let k = abc.k();
                (0usize..=30, 0usize..=20).prop_flat_map(move |(len, n)| {
                    let equal = proptest::collection::vec(proptest::collection::vec(0u8..k as u8, len), n);
                    let ragged = proptest::collection::vec(proptest::collection::vec(0u8..k as u8, len.saturating_sub(2)..=len + 2), n);
                    (Just(abc), prop_oneof![4 => equal, 1 => ragged])
                })
            })
            .prop_map(|(abc, seqs)| SeqsCase { abc, seqs, repeat: 0 })
            .boxed()
    }
    fn sweep(&self, _tier: Tier) -> Vec<SeqsCase> {
        let mut out = Vec::new();
        for abc in [Abc::Dna, Abc::Protein] {
            // one sequence given 255 .. 131073 times (every column conserved), and a pair differing in one column
            for total in [255usize, 256, 257, 65535, 65536, 65537, 100_000, 131_073] {
                out.push(SeqsCase { abc, seqs: vec![vec![3, 0, 2]], repeat: total - 1 });
            }
            out.push(SeqsCase { abc, seqs: vec![vec![1, 0], vec![1, 2]], repeat: 40_000 });
        }
        out
    }
    fn check(&self, case: &SeqsCase, _cx: &Cx) -> Verdict {
        let expanded;
        let case = if case.repeat > 0 {
            let n = case.seqs.len() * (case.repeat + 1);
            expanded = SeqsCase { abc: case.abc, seqs: case.seqs.iter().cycle().take(n).cloned().collect(), repeat: 0 };
            &expanded
        } else {
            case
        };
        let mut info = CaseInfo::new();
        info.class_if(case.seqs.len() > 255, "more-than-255-sequences");
        info.class_if(case.seqs.len() > 65535, "more-than-65535-sequences");
        let equal = case.seqs.windows(2).all(|w| w[0].len() == w[1].len());
        info.class_if(!equal, "unequal-lengths(rejection)");
        info.class_if(case.seqs.is_empty(), "no-sequence");
        info.class_if(case.abc == Abc::Protein, "protein");
        info.nontrivial = case.seqs.len() >= 2 && case.seqs[0].len() >= 2;
        let f = with_abc!(case.abc, A => {
            let encoded: Vec<EncodedSequence<A>> = case.seqs.iter().map(|s| EncodedSequence::new(syms::<A>(s))).collect();
            let res = CountMatrix::<A>::from_sequences(encoded.iter());
            // the FromIterator route is the same construction
            let collected: Result<CountMatrix<A>, _> = encoded.iter().cloned().collect();
            let same_route = match (&res, &collected) {
                (Ok(a), Ok(b)) => a.len() == b.len() && a.sequence_count() == b.sequence_count() && (0..a.len()).all(|i| a.matrix()[i][..] == b.matrix()[i][..]),
                (Err(_), Err(_)) => true,
                _ => false,
            };
            if !same_route {
                Some(Failure::new("from_sequences:FromIterator", "collect::<Result<CountMatrix, _>>() differs from from_sequences()".to_string()))
            } else {
            match (equal, res) {
                (false, Ok(_)) => Some(Failure::new("from_sequences:accepts-unequal", "sequences of unequal lengths accepted".to_string())),
                (false, Err(_)) => None,
                (true, Err(_)) => Some(Failure::new("from_sequences:rejects-equal", "equal-length sequences rejected".to_string())),
                (true, Ok(cm)) => {
                    let len = case.seqs.first().map(|s| s.len()).unwrap_or(0);
                    let mut f = None;
                    if cm.len() != len || cm.sequence_count() != case.seqs.len() {
                        f = Some(Failure::new("from_sequences:shape", format!("{} rows / {} sequences, expected {} / {}", cm.len(), cm.sequence_count(), len, case.seqs.len())));
                    } else {
                        'outer: for i in 0..len {
                            for j in 0..case.abc.k() {
                                let want = case.seqs.iter().filter(|s| s[i] as usize == j).count() as u32;
                                info.comparisons += 1;
                                if cm.matrix()[i][j] != want {
                                    f = Some(Failure::new("from_sequences:count", format!("position {} symbol {}: {} expected {}", i, j, cm.matrix()[i][j], want)));
                                    break 'outer;
                                }
                            }
                        }
                    }
                    f
                }
            }
            }
        });
        match f {
            Some(f) => Verdict::Fail(f),
            None => Verdict::Pass(info),
        }
    }
}

// ---------------------------------------------------------------------------
// the conversion chain
// ---------------------------------------------------------------------------

#[derive(Clone, Debug, Serialize, Deserialize)]
pub enum Pseudo {
    Scalar(Fl),
    PerSymbol(Vec<Fl>),
    /// built by the constructor for the scalar, then overwritten in place through `AsMut<[f32]>`
    InPlace(Fl, Vec<Fl>),
}

#[derive(Clone, Debug, Serialize, Deserialize)]
pub struct ChainCase {
    pub abc: Abc,
    pub counts: Vec<Vec<u32>>,
    pub pseudo: Pseudo,
    pub bg: BgSpec,
    pub bg2: BgSpec,
    pub base: Fl,
    /// words (as symbol picks, wildcard-free) scored against min/max
    pub words: Vec<Vec<u8>>,
}

pub struct Chain;

fn pseudo_of<A: Alphabet>(p: &Pseudo) -> (Pseudocounts<A>, Vec<f64>) {
    let k = A::symbols().len();
    match p {
        Pseudo::Scalar(x) => {
            let v: Vec<f64> = (0..k).map(|j| if j == k - 1 { 0.0 } else { x.0 as f64 }).collect();
            (Pseudocounts::from(x.0), v)
        }
        Pseudo::PerSymbol(xs) => {
            let arr: GenericArray<f32, A::K> = xs.iter().map(|x| x.0).collect();
            (Pseudocounts::from(arr), xs.iter().map(|x| x.0 as f64).collect())
        }
        Pseudo::InPlace(first, xs) => {
            let mut p = Pseudocounts::<A>::from(first.0);
            for (dst, x) in p.as_mut().iter_mut().zip(xs) {
                *dst = x.0;
            }
            (p, xs.iter().map(|x| x.0 as f64).collect())
        }
    }
}

fn chain_run<A: Alphabet + PartialEq>(case: &ChainCase, info: &mut CaseInfo) -> Option<Failure>
where
    A::K: PartialEq,
{
    let k = case.abc.k();
    let m = case.counts.len();
    let mut dm = DenseMatrix::<u32, A::K>::new(m);
    for (i, r) in case.counts.iter().enumerate() {
        dm[i].copy_from_slice(r);
    }
    let cm = match CountMatrix::<A>::new(dm) {
        Ok(c) => c,
        Err(_) => return Some(Failure::new("CountMatrix::new:rejects", "count data rejected".to_string())),
    };
    let (pc, pv) = pseudo_of::<A>(&case.pseudo);
    // rows whose total (counts + pseudocounts) is zero have no defined frequency: excluded
    for r in &case.counts {
        let tot: f64 = r.iter().map(|&x| x as f64).sum::<f64>() + pv.iter().sum::<f64>();
        if tot <= 0.0 {
            info.class("zero-row-excluded");
            return None;
        }
    }
    let freq = cm.to_freq(pc);
    let bg: Background<A> = build_bg::<A>(&case.bg);
    let bgf: Vec<f64> = bg.frequencies().iter().map(|&x| x as f64).collect();
    // --- frequencies
    let mut fdef = vec![vec![0.0f64; k]; m];
    for i in 0..m {
        let tot: f64 = (0..k).map(|j| case.counts[i][j] as f64 + pv[j]).sum();
        let mut sum = 0.0;
        for j in 0..k {
            fdef[i][j] = (case.counts[i][j] as f64 + pv[j]) / tot;
            let got = freq.matrix()[i][j] as f64;
            sum += got;
            info.comparisons += 1;
            if !close(got, fdef[i][j], 1e-5) {
                return Some(Failure::new("to_freq:value", format!("row {} symbol {}: {} expected (c+p)/total = {}", i, j, got, fdef[i][j])));
            }
        }
        if (sum - 1.0).abs() > 1e-4 {
            return Some(Failure::new("to_freq:row-sum", format!("row {} sums to {}", i, sum)));
        }
    }
    // --- weights and scores, one-step and two-step
    let weight = freq.to_weight(bg.clone());
    if weight.background().frequencies() != bg.frequencies() {
        return Some(Failure::new("to_weight:background", "weight matrix does not carry the requested background".to_string()));
    }
    let base = case.base.0;
    let one = freq.to_scoring(bg.clone());
    let two = weight.to_scoring();
    let twob = weight.to_scoring_with_base(base);
    // whether the two routes compare equal as whole matrices, asked again below after one of them was queried
    let routes_equal_at_first = one == two;
    let lb = (base as f64).ln();
    for i in 0..m {
        for j in 0..k {
            let wdef = if bgf[j] == 0.0 { 0.0 } else { fdef[i][j] / bgf[j] };
            let w = weight.matrix()[i][j] as f64;
            info.comparisons += 4;
            if !close(w, wdef, 1e-5) {
                return Some(Failure::new("to_weight:value", format!("row {} symbol {}: weight {} expected freq/bg = {}", i, j, w, wdef)));
            }
            let sdef = if wdef == 0.0 { f64::NEG_INFINITY } else { wdef.log2() };
            let s1 = one.matrix()[i][j] as f64;
            let s2 = two.matrix()[i][j] as f64;
            if !close(s1, sdef, 2e-5) {
                return Some(Failure::new("to_scoring:one-step", format!("row {} symbol {}: score {} expected log2(freq/bg) = {}", i, j, s1, sdef)));
            }
            if !close(s2, sdef, 2e-5) || !close(s1, s2, 2e-5) {
                return Some(Failure::new("to_scoring:two-step", format!("row {} symbol {}: two-step {} one-step {} definition {}", i, j, s2, s1, sdef)));
            }
            let sbdef = if wdef == 0.0 { f64::NEG_INFINITY } else { wdef.ln() / lb };
            let sb = twob.matrix()[i][j] as f64;
            if !close(sb, sbdef, 5e-5) {
                return Some(Failure::new("to_scoring_with_base:value", format!("row {} symbol {} base {}: {} expected {}", i, j, base, sb, sbdef)));
            }
        }
    }
    // --- the consuming one-step route (`into_scoring`, which rewrites the frequency table in place) obeys the same definition
    let into = freq.clone().into_scoring(bg.clone());
    if into.background().frequencies() != bg.frequencies() {
        return Some(Failure::new("into_scoring:background", "the scoring matrix does not carry the requested background".to_string()));
    }
    if into.matrix().rows() != m {
        return Some(Failure::new("into_scoring:rows", format!("{} rows for a frequency matrix of {}", into.matrix().rows(), m)));
    }
    for i in 0..m {
        for j in 0..k {
            let wdef = if bgf[j] == 0.0 { 0.0 } else { fdef[i][j] / bgf[j] };
            let sdef = if wdef == 0.0 { f64::NEG_INFINITY } else { wdef.log2() };
            let s = into.matrix()[i][j] as f64;
            let s1 = one.matrix()[i][j] as f64;
            info.comparisons += 1;
            if !close(s, sdef, 2e-5) || !close(s, s1, 2e-5) {
                return Some(Failure::new("into_scoring:value", format!("row {} symbol {}: into_scoring {} to_scoring {} definition {}", i, j, s, s1, sdef)));
            }
        }
    }
    // --- conversion traits: ScoringMatrix::from(weight) is to_scoring(); WeightMatrix::from(scoring) inverts it
    let via_from =lightmotif::pwm::ScoringMatrix::<A>::from(weight.clone());
    if via_from.background().frequencies() != two.background().frequencies() || (0..m).any(|i| via_from.matrix()[i].iter().zip(two.matrix()[i].iter()).any(|(a, b)| a.to_bits() != b.to_bits())) {
        return Some(Failure::new("ScoringMatrix::from(weight)", "differs from weight.to_scoring()".to_string()));
    }
    let back = lightmotif::pwm::WeightMatrix::<A>::from(two.clone());
    if back.background().frequencies() != bg.frequencies() {
        return Some(Failure::new("WeightMatrix::from(scoring):background", "the background is not carried over".to_string()));
    }
    for i in 0..m {
        for j in 0..k {
            info.comparisons += 1;
            let (w, b) = (weight.matrix()[i][j] as f64, back.matrix()[i][j] as f64);
            // base-2 scores back to weights: 2^log2(w) = w; a zero weight (score -inf) comes back as 0
            if !close(b, w, 2e-5) {
                return Some(Failure::new("WeightMatrix::from(scoring):value", format!("row {} symbol {}: 2^score = {} but the weight was {}", i, j, b, w)));
            }
        }
    }
    // --- rescale(bg2) == to_weight(bg2) where the old background is non-zero, 0 where bg2 is 0
    let bg2: Background<A> = build_bg::<A>(&case.bg2);
    let b2: Vec<f64> = bg2.frequencies().iter().map(|&x| x as f64).collect();
    let resc = weight.rescale(bg2.clone());
    if resc.background().frequencies() != bg2.frequencies() {
        return Some(Failure::new("rescale:background", "rescaled matrix does not carry the new background".to_string()));
    }
    for i in 0..m {
        for j in 0..k {
            let got = resc.matrix()[i][j] as f64;
            info.comparisons += 1;
            if b2[j] == 0.0 {
                if got != 0.0 {
                    return Some(Failure::new(
                        "rescale:zero-background",
                        format!("row {} symbol {}: new background frequency is 0 but the weight is {} (old bg {}, old weight {})", i, j, got, bgf[j], weight.matrix()[i][j]),
                    ));
                }
            } else if bgf[j] != 0.0 {
                let want = fdef[i][j] / b2[j];
                if !close(got, want, 1e-5) {
                    return Some(Failure::new("rescale:value", format!("row {} symbol {}: {} expected freq/bg2 = {}", i, j, got, want)));
                }
            }
        }
    }
    // --- min/max envelope
    if m > 0 {
        let mn = one.min_score() as f64;
        let mx = one.max_score() as f64;
        let cell = |i: usize, j: usize| one.matrix()[i][j] as f64;
        let mut argmin = 0.0;
        let mut argmax = 0.0;
        let mut abs = 0.0;
        for i in 0..m {
            let row: Vec<f64> = (0..k - 1).map(|j| cell(i, j)).collect();
            argmin += row.iter().cloned().fold(f64::INFINITY, f64::min);
            argmax += row.iter().cloned().fold(f64::NEG_INFINITY, f64::max);
            abs += row.iter().cloned().filter(|x| x.is_finite()).fold(0.0f64, |a, x| a.max(x.abs()));
        }
        let tol = (m as f64) * 2f64.powi(-22) * abs + 1e-6;
        let near = |a: f64, b: f64| a == b || (a.is_finite() && b.is_finite() && (a - b).abs() <= tol);
        if !near(mn, argmin) {
            return Some(Failure::new("min_score:value", format!("min_score() = {} but the arg-min word scores {}", mn, argmin)));
        }
        if !near(mx, argmax) {
            return Some(Failure::new("max_score:value", format!("max_score() = {} but the arg-max word scores {}", mx, argmax)));
        }
        // `one` has now answered min_score() / max_score() and `two` has not: equality of two matrices depends on
        // their cells and backgrounds, not on which read-only questions one of them was asked before
        let _ = one.to_discrete();
        info.comparisons += 1;
        if (one == two) != routes_equal_at_first {
            return Some(Failure::new(
                "routes:equality-changed-by-a-query",
                format!("freq.to_scoring(bg) == freq.to_weight(bg).to_scoring() was {} after construction and is {} after min_score() / max_score() / to_discrete() on the first", routes_equal_at_first, one == two),
            ));
        }
        let fresh = lightmotif::pwm::ScoringMatrix::<A>::new(one.background().clone(), one.matrix().clone());
        let nan = (0..m).any(|i| one.matrix()[i].iter().any(|x| x.is_nan()));
        if !nan && one != fresh {
            return Some(Failure::new("routes:equality-changed-by-a-query", "a queried scoring matrix differs from ScoringMatrix::new(its background, its cells)".to_string()));
        }
        for w in &case.words {
            let s: f64 = (0..m).map(|i| cell(i, (w[i % w.len().max(1)] as usize) % (k - 1))).sum();
            info.comparisons += 1;
            if !(s >= mn - tol || (s == f64::NEG_INFINITY && mn == f64::NEG_INFINITY)) || !(s <= mx + tol) {
                return Some(Failure::new("min_max:envelope", format!("a wildcard-free word scores {} outside [{}, {}]", s, mn, mx)));
            }
        }
    }
    None
}

impl Sub for Chain {
    type Case = ChainCase;
    fn name(&self) -> &'static str {
        "chain"
    }
    fn rule(&self) -> &'static str {
        "count matrix (M 0..30, cells 0..1000 and up to u32::MAX, both alphabets) x pseudocounts (scalar, per-symbol, or built for a scalar and then overwritten in place through AsMut) x background (uniform / from counts / dyadic, zero entries, non-zero wildcard, one symbol counted 1..3 times among billions) x second background x base {2,10,e,3.7,...}; to_freq, to_weight, to_scoring (one-step, consuming one-step `into_scoring`, and two-step; cell by cell, and as whole matrices with == before and after one of the two answered min_score / max_score / to_discrete), to_scoring_with_base, rescale, min_score/max_score compared with the f64 definitions (tolerance 1e-5 relative); rows with zero total are excluded; non-trivial = M >= 2 and (non-uniform background or per-symbol pseudocounts or base != 2)"
    }
    fn cases(&self, tier: Tier) -> u64 {
        tier.pick(60_000, 1_500_000)
    }
    fn strategy(&self, _tier: Tier) -> BoxedStrategy<ChainCase> {
        abc_strategy()
            .prop_flat_map(|abc| {
                let k = abc.k();
                (0usize..=30).prop_flat_map(move |m| {
                    let cell = prop_oneof![6 => Just(0u32), 12 => 0u32..=40, 2 => 0u32..=1000, 1 => prop_oneof![Just(u32::MAX), Just(1u32 << 24), (1u32 << 24)..=u32::MAX]];
                    let pseudo = prop_oneof![
                        3 => prop_oneof![Just(0.0f32), Just(0.1f32), Just(0.25), Just(1.0), 0.0f32..3.0].prop_map(|x| Pseudo::Scalar(Fl(x))),
                        2 => proptest::collection::vec(prop_oneof![Just(0.0f32), 0.0f32..2.0], k).prop_map(|v| Pseudo::PerSymbol(v.into_iter().map(Fl).collect())),
                        1 => (prop_oneof![Just(0.0f32), Just(1.0f32)], proptest::collection::vec(prop_oneof![Just(0.0f32), 0.0f32..2.0], k)).prop_map(|(f, v)| Pseudo::InPlace(Fl(f), v.into_iter().map(Fl).collect())),
                    ];
                    (
                        Just(abc),
                        proptest::collection::vec(proptest::collection::vec(cell, k), m),
                        pseudo,
                        bg_strategy(k, true, true),
                        bg_strategy(k, true, true),
                        prop_oneof![3 => Just(2.0f32), 2 => Just(10.0f32), 1 => Just(std::f32::consts::E), 1 => Just(3.7f32), 1 => 1.5f32..20.0],
                        proptest::collection::vec(proptest::collection::vec(0u8..(k as u8 - 1), 1..=8), 0..4),
                    )
                })
            })
            .prop_map(|(abc, counts, pseudo, bg, bg2, base, words)| ChainCase { abc, counts, pseudo, bg, bg2, base: Fl(base), words })
            .boxed()
    }
    fn check(&self, case: &ChainCase, _cx: &Cx) -> Verdict {
        let mut info = CaseInfo::new();
        let m = case.counts.len();
        info.nontrivial = m >= 2 && (case.bg != BgSpec::Uniform || matches!(case.pseudo, Pseudo::PerSymbol(_) | Pseudo::InPlace(..)) || case.base.0 != 2.0);
        info.class_if(matches!(case.pseudo, Pseudo::InPlace(..)), "pseudocounts-overwritten-in-place");
        info.class_if(bg_freqs(case.abc, &case.bg).iter().any(|&x| x > 0.0 && x < f32::EPSILON), "background-entry-below-f32-epsilon");
        info.class_if(case.abc == Abc::Protein, "protein");
        info.class_if(case.abc == Abc::Dna, "dna");
        let f1 = bg_freqs(case.abc, &case.bg);
        let f2 = bg_freqs(case.abc, &case.bg2);
        info.class_if(f1[..f1.len() - 1].iter().any(|&x| x == 0.0), "zero-background-entry");
        info.class_if(f2.iter().any(|&x| x == 0.0), "rescale-to-zero-entry");
        info.class_if(*f1.last().unwrap() > 0.0, "non-zero-wildcard-background");
        info.class_if(m == 0, "M=0");
        let f = with_abc!(case.abc, A => chain_run::<A>(case, &mut info));
        match f {
            Some(f) => Verdict::Fail(f),
            None => Verdict::Pass(info),
        }
    }
}

// ---------------------------------------------------------------------------
// backgrounds counted from sequences
// ---------------------------------------------------------------------------

#[derive(Clone, Debug, Serialize, Deserialize)]
pub struct BgSeqCase {
    pub abc: Abc,
    pub seqs: Vec<SeqSpec>,
    pub unknown: bool,
    /// count on the striped form of the sequences (32 columns, with look-ahead rows) instead of the linear one
    pub striped: bool,
}

pub struct BackgroundFromSequences;

impl Sub for BackgroundFromSequences {
    type Case = BgSeqCase;
    fn name(&self) -> &'static str {
        "background-from-sequences"
    }
    fn rule(&self) -> &'static str {
        "1..4 sequences (L 0..200, wildcards) counted by Background::from_sequence / from_sequences on the linear or the striped (and wrap-configured) form, with and without the wildcard (`unknown`): frequencies = symbol counts / total exactly (same f32 division), InvalidData iff the total is zero; non-trivial = a wildcard is present and >= 2 distinct symbols"
    }
    fn cases(&self, tier: Tier) -> u64 {
        tier.pick(20_000, 400_000)
    }
    fn strategy(&self, _tier: Tier) -> BoxedStrategy<BgSeqCase> {
        abc_strategy()
            .prop_flat_map(|abc| (Just(abc), proptest::collection::vec(seq_strategy(abc.k(), (0usize..=200).boxed()), 1..=4), any::<bool>(), any::<bool>()))
            .prop_map(|(abc, seqs, unknown, striped)| BgSeqCase { abc, seqs, unknown, striped })
            .boxed()
    }
    fn check(&self, case: &BgSeqCase, _cx: &Cx) -> Verdict {
        use lightmotif::num::U32;
        use lightmotif::pli::{Pipeline, Stripe};
        use lightmotif::seq::StripedSequence;
        let k = case.abc.k();
        let idx: Vec<Vec<u8>> = case.seqs.iter().map(|s| s.expand(k)).collect();
        let mut counts = vec![0usize; k];
        for s in &idx {
            for &x in s {
                if case.unknown || (x as usize) != k - 1 {
                    counts[x as usize] += 1;
                }
            }
        }
        let total: usize = counts.iter().sum();
        let mut info = CaseInfo::new();
        info.nontrivial = idx.iter().flatten().any(|&x| x as usize == k - 1) && counts.iter().filter(|&&c| c > 0).count() >= 2;
        info.class_if(case.striped, "striped-form");
        info.class_if(case.unknown, "wildcard-counted");
        info.class_if(total == 0, "zero-total(rejection)");
        let f = with_abc!(case.abc, A => {
            let res = if case.striped {
                let st: Vec<StripedSequence<A, U32>> = idx.iter().map(|s| { let mut x: StripedSequence<A, U32> = Pipeline::<A, _>::generic().stripe(&syms::<A>(s)); x.configure_wrap(s.len() % 7); x }).collect();
                if st.len() == 1 { Background::<A>::from_sequence(st.into_iter().next().unwrap(), case.unknown) } else { Background::<A>::from_sequences(st, case.unknown) }
            } else {
                let en: Vec<EncodedSequence<A>> = idx.iter().map(|s| EncodedSequence::new(syms::<A>(s))).collect();
                if en.len() == 1 { Background::<A>::from_sequence(en.into_iter().next().unwrap(), case.unknown) } else { Background::<A>::from_sequences(en, case.unknown) }
            };
            match res {
                Err(_) => if total == 0 { None } else { Some(Failure::new("from_sequences:rejects-valid", format!("counts {:?} rejected", counts))) },
                Ok(b) => {
                    if total == 0 { Some(Failure::new("from_sequences:accepts-zero", "no symbol counted but a background was returned".to_string())) }
                    else {
                        (0..k).find(|&j| b.frequencies()[j] != counts[j] as f32 / total as f32).map(|j| Failure::new(
                            "from_sequences:value", format!("symbol {}: frequency {} but counts {:?} give {}/{} (unknown={}, striped={})", j, b.frequencies()[j], counts, counts[j], total, case.unknown, case.striped)))
                    }
                }
            }
        });
        match f {
            Some(f) => Verdict::Fail(f),
            None => Verdict::Pass(info),
        }
    }
}

// ---------------------------------------------------------------------------
// rejections
// ---------------------------------------------------------------------------

#[derive(Clone, Debug, Serialize, Deserialize)]
pub enum Reject {
    /// Background::new with these frequencies
    Background(Vec<Fl>),
    /// Background::from_counts
    BackgroundCounts(Vec<u32>),
    /// FrequencyMatrix::new with these rows
    Frequencies(Vec<Vec<Fl>>),
}

#[derive(Clone, Debug, Serialize, Deserialize)]
pub struct RejectCase {
    pub abc: Abc,
    pub what: Reject,
}

pub struct Rejections;

impl Sub for Rejections {
    type Case = RejectCase;
    fn name(&self) -> &'static str {
        "rejections"
    }
    fn rule(&self) -> &'static str {
        "Background::new on valid dyadic frequencies (must be accepted) and on frequencies made invalid by a negative entry, an entry > 1, NaN, or a sum off by > 1e-3 (must be rejected); Background::from_counts incl. all-zero counts; FrequencyMatrix::new on rows summing to 1 within 0.005 (accepted) or off by > 0.02, or holding a NaN / infinite cell (rejected); non-trivial = a rejection path is expected"
    }
    fn cases(&self, tier: Tier) -> u64 {
        tier.pick(30_000, 600_000)
    }
    fn strategy(&self, _tier: Tier) -> BoxedStrategy<RejectCase> {
        abc_strategy()
            .prop_flat_map(|abc| {
                let k = abc.k();
                let valid_bg = bg_strategy(k, true, true).prop_filter_map("dyadic only", |b| match b {
                    BgSpec::Dyadic(d) => Some(d.iter().map(|&x| Fl(x as f32 / 64.0)).collect::<Vec<Fl>>()),
                    _ => None,
                });
                let broken_bg = (valid_bg.clone(), 0usize..k, prop_oneof![Just(-0.25f32), Just(1.5f32), Just(f32::NAN), Just(0.015625f32), Just(-0.015625f32)])
                    .prop_map(|(mut v, j, d)| {
                        if d.is_nan() || d.abs() > 0.1 {
                            v[j] = Fl(d);
                        } else {
                            v[j] = Fl(v[j].0 + d);
                        }
                        v
                    });
                // out of range but summing to exactly one: only the range test can reject these
                let out_of_range = (0usize..k, 1usize..k, prop_oneof![Just(1.5f32), Just(2.0f32), Just(1.25f32)]).prop_map(move |(a, d, hi)| {
                    let mut v = vec![Fl(0.0); k];
                    v[a] = Fl(hi);
                    v[(a + d) % k] = Fl(1.0 - hi);
                    v
                });
                let counts = proptest::collection::vec(prop_oneof![3 => Just(0u32), 1 => 0u32..50], k);
                let rows = proptest::collection::vec(
                    (proptest::collection::vec(1u32..100, k), prop_oneof![6 => Just(0.0f32), 2 => Just(0.004f32), 2 => Just(-0.004f32), 2 => Just(0.03f32), 2 => Just(-0.03f32), 2 => Just(0.5f32), 1 => Just(f32::NAN), 1 => Just(f32::INFINITY), 1 => Just(f32::NEG_INFINITY)], 0usize..k).prop_map(
                        move |(w, off, at)| {
                            let tot: u32 = w.iter().sum();
                            let mut r: Vec<Fl> = w.iter().map(|&x| Fl(x as f32 / tot as f32)).collect();
                            if off.is_finite() {
                                r[0] = Fl(r[0].0 + off);
                            } else {
                                // a cell that is not a number at all: NaN, or +inf next to -inf (the row sum is NaN), or a lone infinity
                                r[at] = Fl(off);
                                if off == f32::NEG_INFINITY {
                                    r[(at + 1) % k] = Fl(f32::INFINITY);
                                }
                            }
                            r
                        },
                    ),
                    0..6,
                );
                (
                    Just(abc),
                    prop_oneof![
                        2 => valid_bg.prop_map(Reject::Background),
                        3 => broken_bg.prop_map(Reject::Background),
                        2 => out_of_range.prop_map(Reject::Background),
                        2 => counts.prop_map(Reject::BackgroundCounts),
                        4 => rows.prop_map(Reject::Frequencies),
                    ],
                )
            })
            .prop_map(|(abc, what)| RejectCase { abc, what })
            .boxed()
    }
    fn check(&self, case: &RejectCase, _cx: &Cx) -> Verdict {
        let mut info = CaseInfo::new();
        let f = with_abc!(case.abc, A => {
            match &case.what {
                Reject::Background(v) => {
                    let vals: Vec<f32> = v.iter().map(|x| x.0).collect();
                    let in_range = vals.iter().all(|x| (0.0..=1.0).contains(x));
                    let sum: f64 = vals.iter().map(|&x| x as f64).sum();
                    let arr: GenericArray<f32, <A as Alphabet>::K> = vals.iter().cloned().collect();
                    let res = Background::<A>::new(arr);
                    if !in_range || (sum - 1.0).abs() > 1e-3 || sum.is_nan() {
                        info.nontrivial = true;
                        info.class("background-rejection");
                        if res.is_ok() { Some(Failure::new("Background::new:accepts-invalid", format!("frequencies {:?} accepted", vals))) } else { None }
                    } else if sum == 1.0 {
                        info.class("background-valid");
                        match res {
                            Err(_) => Some(Failure::new("Background::new:rejects-valid", format!("frequencies {:?} (exact sum 1) rejected", vals))),
                            Ok(b) => if b.frequencies() != vals.as_slice() { Some(Failure::new("Background::new:value", "stored frequencies differ".to_string())) } else { None },
                        }
                    } else { None }
                }
                Reject::BackgroundCounts(c) => {
                    let arr: GenericArray<usize, <A as Alphabet>::K> = c.iter().map(|&x| x as usize).collect();
                    let tot: u32 = c.iter().sum();
                    match Background::<A>::from_counts(&arr) {
                        Ok(b) => {
                            if tot == 0 { Some(Failure::new("from_counts:accepts-zero", "all-zero counts accepted".to_string())) }
                            else {
                                info.class("from_counts-valid");
                                let bad = (0..c.len()).find(|&j| !close(b.frequencies()[j] as f64, c[j] as f64 / tot as f64, 1e-6));
                                bad.map(|j| Failure::new("from_counts:value", format!("symbol {}: {} expected {}", j, b.frequencies()[j], c[j] as f64 / tot as f64)))
                            }
                        }
                        Err(_) => {
                            info.nontrivial = true;
                            info.class("from_counts-rejection");
                            if tot != 0 { Some(Failure::new("from_counts:rejects-valid", "positive counts rejected".to_string())) } else { None }
                        }
                    }
                }
                Reject::Frequencies(rows) => {
                    let mut dm = DenseMatrix::<f32, <A as Alphabet>::K>::new(rows.len());
                    for (i, r) in rows.iter().enumerate() { for (j, x) in r.iter().enumerate() { dm[i][j] = x.0; } }
                    let dev: Vec<f64> = rows.iter().map(|r| (r.iter().map(|x| x.0 as f64).sum::<f64>() - 1.0).abs()).collect();
                    let res = FrequencyMatrix::<A>::new(dm);
                    // a row sum that is not a number (or infinite) does not "sum to one" either
                    if dev.iter().any(|&d| d > 0.02 || !d.is_finite()) {
                        info.class_if(dev.iter().any(|d| !d.is_finite()), "frequency-row-with-NaN-or-inf");
                        info.nontrivial = true;
                        info.class("frequency-rejection");
                        if res.is_ok() { Some(Failure::new("FrequencyMatrix::new:accepts-invalid", format!("row sums deviate by {:?} but the matrix is accepted", dev))) } else { None }
                    } else if dev.iter().all(|&d| d < 0.005) {
                        info.class("frequency-valid");
                        if res.is_err() { Some(Failure::new("FrequencyMatrix::new:rejects-valid", format!("row sums deviate by {:?} only but the matrix is rejected", dev))) } else { None }
                    } else { None }
                }
            }
        });
        match f {
            Some(f) => Verdict::Fail(f),
            None => Verdict::Pass(info),
        }
    }
}

pub fn property() -> Property {
    Property {
        id: "C09",
        subs: vec![Box::new(FromSequences), Box::new(Chain), Box::new(BackgroundFromSequences), Box::new(Rejections)],
        assumptions: vec![
            "a row whose counts + pseudocounts total zero has no defined frequency and is excluded (counted as class zero-row-excluded)",
            "definitions are evaluated in f64 and compared with relative tolerance 1e-5 (2e-5 after a logarithm)",
            "rescale is specified where the old background is non-zero (the frequency cannot be recovered from a zero weight), and must give 0 wherever the new background is 0",
            "acceptance of frequency rows is only decided clearly inside (< 0.005) or clearly outside (> 0.02) the documented 0.01 tolerance; Background::new acceptance only for exactly representable (dyadic) frequencies",
        ],
    }
}
