//! C02 — Scanner yields exactly the positions scoring at or above the threshold.
//! C03 — Scanner best hit is a maximum-scoring position that meets the threshold.

use lightmotif::abc::Dna;
use lightmotif::num::U32;
use lightmotif::pli::{Pipeline, Stripe};
use lightmotif::scan::Scanner;
use lightmotif::scores::StripedScores;
use lightmotif::seq::StripedSequence;
use proptest::prelude::*;
use serde::{Deserialize, Serialize};

use crate::c08::{any_scored_cell_overflows, embed_word, is_u8_add_overflow, overflow_checked_build, Embed, WRAP_CLASS};
use crate::engine::*;
use crate::gen::*;

#[derive(Clone, Debug, Serialize, Deserialize)]
pub enum Block {
    Fixed(usize),
    /// R + d (at least 1): block boundary relative to the sequence rows / wrap rows
    RowsPlus(i16),
    /// ceil((R + d) / 2): the second block boundary falls near R
    HalfRowsPlus(i16),
    /// leave the scanner's default (256)
    Default,
}

impl Block {
    fn resolve(&self, rows: usize) -> Option<usize> {
        match self {
            Block::Fixed(b) => Some((*b).max(1)),
            Block::RowsPlus(d) => Some((rows as i64 + *d as i64).max(1) as usize),
            Block::HalfRowsPlus(d) => Some((((rows as i64 + *d as i64) + 1) / 2).max(1) as usize),
            Block::Default => None,
        }
    }
}

#[derive(Clone, Debug, Serialize, Deserialize)]
pub enum ThrSpec {
    /// exactly the score of a valid position (tests >= vs >)
    ScoreOf(usize),
    /// the next f32 above the score of a position
    JustAbove(usize),
    /// midpoint between the score of a position and the next larger distinct score
    Midpoint(usize),
    /// the k-th largest finite score (k = 0: only the best positions hit)
    TopK(usize),
    BelowMin,
    VeryLow,
    NegInf,
    AboveMax,
    /// do not call `threshold()`: the default 0.0 applies
    DefaultZero,
    Value(Fl),
}

#[derive(Clone, Debug, Serialize, Deserialize)]
pub struct Case {
    pub seq: SeqSpec,
    pub mat: MatSpec,
    pub embed: Embed,
    pub extra_wrap: usize,
    pub block: Block,
    pub thr: ThrSpec,
    pub arm: Arm,
    /// use a caller-provided score buffer (`Scanner::scores`)
    pub own_buffer: bool,
    /// C03: number of `next()` calls before `max()`; also the alternative block sizes
    pub consumed: usize,
    pub alt_blocks: Vec<Block>,
    /// scan a clone of the configured sequence: a clone's buffer has no spare capacity
    /// after its last row (matters to the sanitizer runs of C06)
    #[serde(default)]
    pub exact_alloc: bool,
    /// (h, block): once `h` hits have been yielded in total, call `block_size(block)` on the running
    /// scanner (the builder takes `&mut self`, so it can be called between two `next()` calls)
    #[serde(default)]
    pub reconfig: Vec<(usize, Block)>,
    /// C02: how the scanner is exhausted after `consumed` explicit next() calls: 0 = next() until None,
    /// 1 = for_each, 2 = fold, 3 = count, 4 = collect::<Vec>, 5 = last, 6 = max_by (score)
    #[serde(default)]
    pub finish: u8,
    /// C03: after the `consumed` next() calls and before max(), call `threshold()` again on the running scanner
    /// with this value when it is not below the threshold in force (the builder takes `&mut self`; raising the
    /// threshold leaves "the positions scoring >= threshold" well defined whatever was buffered before)
    #[serde(default)]
    pub raise: Option<ThrSpec>,
    /// 0 = the sequence is striped by the library; n > 0 = it is built by hand through `StripedSequence::new` from a
    /// matrix with n-1 rows more than ceil(L/32) (position p at row p % rows, column p / rows, as `Index` defines)
    /// whose unused cells hold arbitrary symbols
    #[serde(default)]
    pub via_new: u8,
    /// C03: how the best hit is asked for: 0 = `Scanner::max(self)`; 1 = `Iterator::max` through `&mut Scanner`
    /// (`scanner.by_ref().max()`: the by-value override is not reached, the order of `Hit` decides);
    /// 2 = the remaining hits collected and `into_iter().max()`
    #[serde(default)]
    pub best_route: u8,
}

fn next_up(x: f32) -> f32 {
    if x.is_nan() || x == f32::INFINITY {
        return x;
    }
    if x == 0.0 {
        return f32::from_bits(1);
    }
    let b = x.to_bits();
    if x > 0.0 {
        f32::from_bits(b + 1)
    } else {
        f32::from_bits(b - 1)
    }
}

fn resolve_thr(t: &ThrSpec, r32: &[f32], min: f32, max: f32) -> Option<f32> {
    let finite: Vec<f32> = r32.iter().cloned().filter(|x| x.is_finite()).collect();
    let pick = |i: usize| if finite.is_empty() { 0.0 } else { finite[i % finite.len()] };
    Some(match t {
        ThrSpec::ScoreOf(i) => pick(*i),
        ThrSpec::JustAbove(i) => next_up(pick(*i)),
        ThrSpec::Midpoint(i) => {
            let v = pick(*i);
            let next = finite.iter().cloned().filter(|&x| x > v).fold(f32::INFINITY, f32::min);
            if next.is_finite() {
                v + (next - v) / 2.0
            } else {
                v + 0.5
            }
        }
        ThrSpec::TopK(k) => {
            let mut v = finite.clone();
            v.sort_by(|a, b| b.partial_cmp(a).unwrap());
            v.dedup();
            if v.is_empty() {
                0.0
            } else {
                v[(*k).min(v.len() - 1)]
            }
        }
        ThrSpec::BelowMin => {
            if min.is_finite() {
                min - 1.0
            } else {
                -1e6
            }
        }
        ThrSpec::VeryLow => -1e9,
        ThrSpec::NegInf => f32::NEG_INFINITY,
        ThrSpec::AboveMax => {
            if max.is_finite() {
                max + 1.0
            } else {
                1e6
            }
        }
        ThrSpec::DefaultZero => return None,
        ThrSpec::Value(v) => v.0,
    })
}

fn block_strategy() -> BoxedStrategy<Block> {
    prop_oneof![
        4 => (1usize..=8).prop_map(Block::Fixed),
        1 => (9usize..=64).prop_map(Block::Fixed),
        4 => (-2i16..=40).prop_map(Block::RowsPlus),
        3 => (-2i16..=40).prop_map(Block::HalfRowsPlus),
        1 => Just(Block::Fixed(256)),
        2 => Just(Block::Default),
        // "one block, whatever the length": the largest values the type holds, and those around the 32-bit limit
        1 => proptest::sample::select(vec![usize::MAX, usize::MAX - 1, usize::MAX / 2 + 1, 1usize << 40, u32::MAX as usize, u32::MAX as usize + 1, i32::MAX as usize]).prop_map(Block::Fixed),
    ]
    .boxed()
}

fn thr_strategy() -> BoxedStrategy<ThrSpec> {
    prop_oneof![
        5 => any::<usize>().prop_map(ThrSpec::ScoreOf),
        3 => any::<usize>().prop_map(ThrSpec::JustAbove),
        3 => any::<usize>().prop_map(ThrSpec::Midpoint),
        4 => (0usize..4).prop_map(ThrSpec::TopK),
        2 => Just(ThrSpec::BelowMin),
        1 => Just(ThrSpec::VeryLow),
        1 => Just(ThrSpec::NegInf),
        1 => Just(ThrSpec::AboveMax),
        1 => Just(ThrSpec::DefaultZero),
        1 => (-40.0f32..40.0).prop_map(|v| ThrSpec::Value(Fl(v))),
    ]
    .boxed()
}

fn scan_len(tier: Tier) -> BoxedStrategy<usize> {
    let mut alts: Vec<(u32, BoxedStrategy<usize>)> = vec![
        (1, (0usize..=2).boxed()),
        (5, (0usize..=100).boxed()),
        (5, (100usize..=700).boxed()),
        (3, (700usize..=2100).boxed()),
    ];
    alts.push((if tier == Tier::Thorough { 2 } else { 1 }, (8152usize..=8232).boxed()));
    proptest::strategy::Union::new_weighted(alts).boxed()
}

fn case_strategy(tier: Tier, near_tie: bool) -> BoxedStrategy<Case> {
    let reg = Regimes { library: true, finite: true, neginf: true, small_int: true, near_tie };
    (
        seq_strategy(5, scan_len(tier)),
        mat_strategy(Abc::Dna, prop_oneof![1 => Just(1usize), 4 => 2usize..=12, 3 => 13usize..=40].boxed(), reg),
        prop_oneof![3 => Just(Embed::None), 2 => any::<usize>().prop_map(Embed::Consensus), 1 => any::<usize>().prop_map(Embed::Anti), 2 => any::<usize>().prop_map(Embed::Best)],
        prop_oneof![3 => Just(0usize), 1 => 1usize..=3, 1 => 20usize..=45],
        block_strategy(),
        thr_strategy(),
        arm_strategy(),
        any::<bool>(),
        prop_oneof![3 => Just(0usize), 2 => 1usize..=3, 1 => 4usize..=40, 1 => Just(usize::MAX)],
        (
            proptest::collection::vec(block_strategy(), 2),
            any::<bool>(),
            prop_oneof![3 => Just(Vec::new()), 1 => proptest::collection::vec((prop_oneof![3 => 1usize..=4, 1 => 5usize..=60], block_strategy()), 1..=3)],
            prop_oneof![3 => Just(0u8), 2 => 1u8..=6],
            prop_oneof![3 => Just(None), 1 => thr_strategy().prop_map(Some)],
            prop_oneof![6 => Just(0u8), 1 => Just(1u8), 1 => 2u8..=4],
            prop_oneof![3 => Just(0u8), 1 => Just(1u8), 1 => Just(2u8)],
        ),
    )
        .prop_map(|(seq, mat, embed, extra_wrap, block, thr, arm, own_buffer, consumed, (alt_blocks, exact_alloc, reconfig, finish, raise, via_new, best_route))| Case {
            seq,
            mat,
            embed,
            extra_wrap,
            block,
            thr,
            arm,
            own_buffer,
            consumed,
            alt_blocks,
            exact_alloc,
            reconfig,
            finish,
            raise,
            via_new,
            best_route,
        })
        .boxed()
}

/// Everything derived from a case before the scanner runs.
struct Setup {
    idx: Vec<u8>,
    m: usize,
    pssm: lightmotif::pwm::ScoringMatrix<Dna>,
    striped: StripedSequence<Dna, U32>,
    rows: usize,
    r32: Vec<f32>,
    thr: Option<f32>,
    /// some window's discretised cells sum above 255 (u8 wrap class of the generic kernel)
    u8_overflow: bool,
}

fn setup(case: &Case) -> Setup {
    let cells = case.mat.cells();
    let m = cells.len();
    let mut idx = case.seq.expand(5);
    embed_word(&cells, 5, &case.embed, &mut idx);
    let pssm = build_pssm::<Dna>(&case.mat);
    let symbols = syms::<Dna>(&idx);
    let mut striped: StripedSequence<Dna, U32> =
        if case.via_new > 0 { striped_via_new::<Dna, U32>(&idx, case.via_new as usize - 1, idx.len() as u64 * 13 + 5) } else { Pipeline::<Dna, _>::generic().stripe(&symbols) };
    striped.configure(&pssm);
    if case.extra_wrap > 0 {
        striped.configure_wrap(m - 1 + case.extra_wrap);
    }
    if case.exact_alloc {
        striped = striped.clone();
    }
    let rows = striped.matrix().rows() - striped.wrap();
    let r32 = ref_scores_f32(&cells, &idx);
    let min = pssm.min_score();
    let max = pssm.max_score();
    let thr = resolve_thr(&case.thr, &r32, min, max);
    let dm = pssm.to_discrete();
    let n = r32.len();
    // (a build with overflow checks panics on ANY scored cell above 255, padding positions included; a build
    // without them only loses hits at valid positions)
    let u8_overflow = (0..n).any(|i| (0..m).map(|j| dm.matrix()[j][idx[i + j] as usize] as u32).sum::<u32>() > 255) || (overflow_checked_build() && any_scored_cell_overflows(&dm, &striped));
    Setup { idx, m, pssm, striped, rows, r32, thr, u8_overflow }
}

fn arm_sig(arm: Arm) -> &'static str {
    match arm {
        Arm::Generic => "scanner[generic]",
        Arm::Sse2 => "scanner[sse2]",
        Arm::Avx2 => "scanner[avx2]",
    }
}

fn classify(case: &Case, s: &Setup, expected: usize, info: &mut CaseInfo) {
    let n = s.r32.len();
    info.class_if(s.idx.is_empty(), "L=0");
    info.class_if(s.idx.len() < s.m, "L<M");
    info.class(case.arm.name());
    info.class_if(s.u8_overflow, "u8-sum>255-window");
    info.class_if(matches!(case.thr, ThrSpec::BelowMin | ThrSpec::VeryLow | ThrSpec::NegInf), "threshold<=min");
    info.class_if(matches!(case.thr, ThrSpec::ScoreOf(_)), "threshold=exact-score");
    info.class_if(expected == 0, "no-hit");
    info.class_if(n > 0 && expected == n, "all-hit");
    info.class_if(case.mat.rows.iter().any(|r| r[4].0.is_finite()), "finite-wildcard-column");
    info.class_if(n > 0 && s.r32.iter().cloned().fold(f32::NEG_INFINITY, f32::max) > s.pssm.max_score(), "a-window-with-wildcards-scores-above-max_score()");
    info.class_if(s.idx.len() >= 8000, "L>=8000");
    info.class_if(s.rows > 65536, "more-than-65536-rows");
    info.class_if(matches!(case.block, Block::Fixed(b) if b >= i32::MAX as usize), "block-size>=2^31");
    info.class_if(case.via_new == 1, "built-by-StripedSequence::new(arbitrary-padding)");
    info.class_if(case.via_new > 1, "built-by-StripedSequence::new(spare-rows)");
    let wrap = s.striped.wrap();
    if let Some(b) = case.block.resolve(s.rows) {
        // (block sizes go up to usize::MAX: saturating arithmetic in the labels)
        let k = s.rows.saturating_add(b - 1) / b.max(1);
        let kb = k.saturating_mul(b);
        info.class_if(b < s.rows, ">=2-blocks");
        info.class_if(kb >= s.rows && kb < s.rows + wrap && kb != s.rows || (s.rows > 0 && b >= s.rows && b < s.rows + wrap), "block-boundary-in-wrap-rows");
    } else {
        info.class("default-block-size");
        info.class_if(256 < s.rows, ">=2-blocks");
    }
}


/// In a build with arithmetic overflow checks the scalar 8-bit kernel of the Generic / Sse2 arms panics on a
/// window whose cells sum above 255 where a release build wraps around and loses the hit: the same root cause
/// (open finding KF06), reported under the same signature as the lost hit.
fn overflow_checked(case: &Case, kind: &str, f: impl FnOnce() -> Verdict) -> Verdict {
    match catch_inner(f) {
        Ok(v) => v,
        Err((loc, msg)) => {
            let s = setup(case);
            if is_u8_add_overflow(&loc, &msg) && case.arm != Arm::Avx2 && s.u8_overflow {
                Verdict::Fail(Failure::new(
                    format!("{}:{}:{}", arm_sig(case.arm), kind, WRAP_CLASS),
                    format!("the scalar 8-bit kernel panicked at {}: {} (overflow-checked build; a build without the checks wraps around and loses the hit)", loc, msg),
                ))
            } else {
                Verdict::Fail(Failure::new(panic_sig(&loc, &msg), format!("panicked at {}: {}", loc, msg)))
            }
        }
    }
}

/// Sequences of more than 65536 striped rows (16-bit row / block counters): a few fixed cases.
fn long_cases() -> Vec<Case> {
    let rows: Vec<Vec<Fl>> = (0..5usize).map(|i| (0..5usize).map(|j| Fl(if j == 4 { -9.0 } else { (((i * 7 + j * 3) % 11) as f32) - 5.0 })).collect()).collect();
    let mut out = Vec::new();
    for (block, thr, consumed) in [(Block::Default, ThrSpec::TopK(2), 1usize), (Block::Fixed(65536), ThrSpec::TopK(40), 3), (Block::Fixed(1000), ThrSpec::TopK(0), 0), (Block::RowsPlus(-1), ThrSpec::TopK(5), 2)] {
        out.push(Case {
            seq: SeqSpec::Seeded { len: 32 * 65536 + 37, seed: 4242, wild_pct: 1 },
            mat: MatSpec { rows: rows.clone(), bg: BgSpec::Uniform, regime: "small-int".into() },
            embed: Embed::Consensus(32 * 65536 + 30),
            extra_wrap: 0,
            block,
            thr,
            arm: Arm::Avx2,
            own_buffer: false,
            consumed,
            alt_blocks: vec![Block::Fixed(70000), Block::Default],
            exact_alloc: false,
            reconfig: Vec::new(),
            raise: None,
            via_new: 0,
            best_route: 0,
            finish: 0,
        });
    }
    out
}

// ---------------------------------------------------------------------------
// C02
// ---------------------------------------------------------------------------

pub struct Exhaust;

impl Sub for Exhaust {
    type Case = Case;
    fn name(&self) -> &'static str {
        "exhaust"
    }
    fn rule(&self) -> &'static str {
        "DNA sequence (L 0..2100, plus 8192+-40) x matrix (library / finite incl. finite wildcard column / -inf cells / small-int) x extra wrap rows x block size derived from the row count (R+d, ceil((R+d)/2), 1..64, 256, default) x threshold derived from the actual scores (exact score, next float above, midpoint, below min, -1e9, -inf, above max, default 0) x forced dispatcher arm x own score buffer x (1 case in 4) 1-3 block_size() calls on the running scanner between two hits x exhaustion by next() or (2 in 5) by k next() calls followed by for_each / fold / count / collect / last / max_by; the hits compared as a multiset with {(i, s_i): s_i >= t}; non-trivial = expected set neither empty nor everything and >= 2 blocks"
    }
    fn cases(&self, tier: Tier) -> u64 {
        tier.pick(100_000, 3_000_000)
    }
    fn strategy(&self, tier: Tier) -> BoxedStrategy<Case> {
        case_strategy(tier, false)
    }
    fn sweep(&self, _tier: Tier) -> Vec<Case> {
        long_cases()
    }
    fn check(&self, case: &Case, cx: &Cx) -> Verdict {
        overflow_checked(case, "missing-hit", || self.check_inner(case, cx))
    }
}

impl Exhaust {
    fn check_inner(&self, case: &Case, cx: &Cx) -> Verdict {
        if case.mat.m() == 0 {
            return Verdict::Pass(CaseInfo::new());
        }
        let s = setup(case);
        let wrap_sig = format!("{}:missing-hit:{}", arm_sig(case.arm), WRAP_CLASS);
        if case.arm != Arm::Avx2 && s.u8_overflow && cx.is_excluded(&wrap_sig) {
            return Verdict::Skip(wrap_sig);
        }
        let n = s.r32.len();
        let t = s.thr.unwrap_or(0.0);
        let mut expected: Vec<(usize, u32)> = (0..n).filter(|&i| s.r32[i] >= t).map(|i| (i, s.r32[i].to_bits())).collect();
        let mut info = CaseInfo::new();
        classify(case, &s, expected.len(), &mut info);
        let multi_block = case.block.resolve(s.rows).unwrap_or(256) < s.rows;
        info.nontrivial = !expected.is_empty() && expected.len() < n && multi_block;
        info.class_if(expected.iter().any(|&(i, _)| i + s.m > n), "hit-in-last-M-1-positions");

        let _g = case.arm.force();
        let mut buffer = StripedScores::<f32, U32>::empty();
        if case.own_buffer && case.consumed % 2 == 1 {
            // the caller's buffer was used before: taller than anything the scanner needs, full of +inf
            buffer.resize(s.rows + 7, (s.rows + 7) * 32);
            for i in 0..s.rows + 7 {
                for j in 0..32 {
                    buffer.matrix_mut()[i][j] = f32::INFINITY;
                }
            }
        }
        let mut scanner = Scanner::new(&s.pssm, &s.striped);
        if let Some(t) = s.thr {
            scanner.threshold(t);
        }
        if let Some(b) = case.block.resolve(s.rows) {
            scanner.block_size(b);
        }
        if case.own_buffer {
            scanner.scores(&mut buffer);
        }
        let mut got: Vec<(usize, u32)> = Vec::new();
        let cap = n + 2;
        let mut switched = 0usize;
        // `consumed` explicit next() calls, then the rest through one of the iterator's consuming adaptors
        // (all of them exhaust the scanner: together with the explicit calls they must yield the same hits)
        let explicit = if case.finish == 0 { usize::MAX } else { case.consumed.min(n + 2) };
        let mut exhausted = false;
        while got.len() < explicit {
            for (h, b) in &case.reconfig {
                if *h == got.len() {
                    if let Some(b) = b.resolve(s.rows) {
                        scanner.block_size(b);
                        switched += 1;
                    }
                }
            }
            match scanner.next() {
                Some(h) => {
                    got.push((h.position(), h.score().to_bits()));
                    if got.len() > cap {
                        return Verdict::Fail(Failure::new(
                            format!("{}:too-many-hits", arm_sig(case.arm)),
                            format!("more than L-M+1+2 = {} hits yielded", cap),
                        ));
                    }
                }
                None => {
                    exhausted = true;
                    break;
                }
            }
        }
        let mut counted_only: Option<usize> = None;
        let mut single: Option<Option<(usize, u32)>> = None;
        if case.finish == 0 {
            if scanner.next().is_some() {
                return Verdict::Fail(Failure::new(format!("{}:not-fused", arm_sig(case.arm)), "next() after None yields a hit".to_string()));
            }
        } else if !exhausted {
            let key = |h: &lightmotif::scan::Hit| (h.position(), h.score().to_bits());
            match case.finish {
                1 => scanner.for_each(|h| got.push(key(&h))),
                2 => got = scanner.fold(got, |mut acc, h| {
                    acc.push(key(&h));
                    acc
                }),
                3 => counted_only = Some(scanner.count()),
                4 => got.extend(scanner.collect::<Vec<_>>().iter().map(key)),
                5 => single = Some(scanner.last().map(|h| key(&h))),
                _ => single = Some(scanner.max_by(|a, b| a.score().partial_cmp(&b.score()).unwrap()).map(|h| key(&h))),
            }
            info.class("exhausted-through-a-consuming-adaptor");
        }
        if let Some(c) = counted_only {
            info.comparisons += 1;
            if got.len() + c != expected.len() {
                return Verdict::Fail(Failure::new(
                    format!("{}:count-after-next", arm_sig(case.arm)),
                    format!("{} hits through next() and count() = {} for the rest, expected {} in total", got.len(), c, expected.len()),
                ));
            }
            return Verdict::Pass(info);
        }
        if let Some(sg) = single {
            // last(): some remaining hit iff any remains; max_by(score): the best remaining score
            info.comparisons += 1;
            let mut got_sorted = got.clone();
            got_sorted.sort_unstable();
            let remaining: Vec<&(usize, u32)> = expected.iter().filter(|e| got_sorted.binary_search(e).is_err()).collect();
            let ok = match sg {
                None => remaining.is_empty(),
                Some(h) => remaining.contains(&&h) && (case.finish == 5 || remaining.iter().all(|e| f32::from_bits(e.1) <= f32::from_bits(h.1))),
            };
            let genuine = got.iter().all(|g| expected.binary_search(g).is_ok());
            if !ok || !genuine {
                return Verdict::Fail(Failure::new(
                    format!("{}:{}-after-next", arm_sig(case.arm), if case.finish == 5 { "last" } else { "max_by" }),
                    format!("after {} next() calls the adaptor returned {:?}; {} hits remained", got.len(), sg.map(|h| (h.0, f32::from_bits(h.1))), remaining.len()),
                ));
            }
            return Verdict::Pass(info);
        }
        info.comparisons += (got.len() + expected.len()) as u64;
        info.class_if(switched > 0 && got.len() > case.reconfig.iter().map(|r| r.0).min().unwrap_or(0), "block-size-changed-between-two-hits");
        got.sort_unstable();
        expected.sort_unstable();
        if got != expected {
            // describe the first difference
            // both lists are sorted: binary search (the lists can hold a million hits)
            let missing: Vec<&(usize, u32)> = expected.iter().filter(|e| got.binary_search(e).is_err()).take(3).collect();
            let extra: Vec<&(usize, u32)> = got.iter().filter(|e| expected.binary_search(e).is_err()).take(3).collect();
            let kind = if !extra.is_empty() && extra.iter().any(|e| e.0 >= n) {
                "hit-past-last-position".to_string()
            } else if !extra.is_empty() {
                if got.windows(2).any(|w| w[0] == w[1]) { "duplicate-hit".to_string() } else { "extra-hit".to_string() }
            } else {
                format!("missing-hit:{}", if s.u8_overflow && case.arm != Arm::Avx2 { WRAP_CLASS } else { "u8-sum<=255" })
            };
            return Verdict::Fail(Failure::new(
                format!("{}:{}", arm_sig(case.arm), kind),
                format!(
                    "threshold {:?}, block {:?}, L={}, M={}, rows={}, wrap={}: yielded {} hits, expected {}; missing (pos, score) {:?}; unexpected {:?}",
                    t,
                    case.block.resolve(s.rows),
                    s.idx.len(),
                    s.m,
                    s.rows,
                    s.striped.wrap(),
                    got.len(),
                    expected.len(),
                    missing.iter().map(|e| (e.0, f32::from_bits(e.1))).collect::<Vec<_>>(),
                    extra.iter().map(|e| (e.0, f32::from_bits(e.1))).collect::<Vec<_>>()
                ),
            ));
        }
        Verdict::Pass(info)
    }
}

pub fn property02() -> Property {
    Property {
        id: "C02",
        subs: vec![Box::new(Exhaust)],
        assumptions: vec![
            "'the exact score' of a position is the f32 left-to-right sum (bit-equal to ScoringMatrix::score_position); no tolerance is used",
            "thresholds are numbers (no NaN); block sizes >= 1; the sequence is configured for the motif before scanning",
            "Scanner::block_size takes &mut self and may be called between two next() calls: the block size then applies to the blocks not yet scored, and the set of hits is the same for every such history",
            "hit order is unspecified: results are compared as multisets",
            "the scanner only exists for DNA with 32 columns on this platform; dispatcher arms are forced through the verif-hooks feature",
        ],
    }
}

// ---------------------------------------------------------------------------
// C03
// ---------------------------------------------------------------------------

pub struct Best;

/// Run `k` next() calls then max() under one block size; returns (consumed positions, best).
fn run_max(case: &Case, s: &Setup, block: &Block, k: usize, reconfigure: bool, raise: Option<f32>) -> (Vec<usize>, Option<(usize, f32)>) {
    // a caller-provided score buffer that was used before (taller than anything the scanner needs)
    let mut buffer = StripedScores::<f32, U32>::empty();
    if case.own_buffer {
        buffer.resize(s.rows + 7, (s.rows + 7) * 32);
        for i in 0..s.rows + 7 {
            for j in 0..32 {
                buffer.matrix_mut()[i][j] = f32::INFINITY;
            }
        }
    }
    let mut scanner = Scanner::new(&s.pssm, &s.striped);
    if let Some(t) = s.thr {
        scanner.threshold(t);
    }
    if let Some(b) = block.resolve(s.rows) {
        scanner.block_size(b);
    }
    if case.own_buffer {
        scanner.scores(&mut buffer);
    }
    let mut consumed = Vec::new();
    for _ in 0..k.min(s.r32.len() + 2) {
        match scanner.next() {
            Some(h) => consumed.push(h.position()),
            None => break,
        }
        if reconfigure {
            for (h, b) in &case.reconfig {
                if *h == consumed.len() {
                    if let Some(b) = b.resolve(s.rows) {
                        scanner.block_size(b);
                    }
                }
            }
        }
    }
    if let Some(t2) = raise {
        scanner.threshold(t2);
    }
    let best = match case.best_route {
        1 => scanner.by_ref().max(),
        2 => scanner.by_ref().collect::<Vec<lightmotif::scan::Hit>>().into_iter().max(),
        _ => scanner.max(),
    }
    .map(|h| (h.position(), h.score()));
    (consumed, best)
}

impl Sub for Best {
    type Case = Case;
    fn name(&self) -> &'static str {
        "best"
    }
    fn rule(&self) -> &'static str {
        "C02's domain plus near-tie matrices (few distinct cell values +-1e-3) on repeat-rich sequences, k next() calls before max() (0, few, all), in a quarter of the cases threshold() called again with a higher value on the running scanner between those next() calls and max(), the same input under 3 block sizes, the best hit asked through Scanner::max(self) or (2 in 5) through Iterator::max on &mut Scanner / on the collected hits, where the order of Hit decides; oracle: None iff no unconsumed position scores >= t, else the returned position is unconsumed, its score is bit-equal to the reference score of that position and equals the maximum over unconsumed hits; non-trivial = a runner-up within one 8-bit step of the best, or no hit although some position passes the 8-bit pre-filter, or k > 0 with hits left"
    }
    fn cases(&self, tier: Tier) -> u64 {
        tier.pick(100_000, 3_000_000)
    }
    fn strategy(&self, tier: Tier) -> BoxedStrategy<Case> {
        case_strategy(tier, true)
    }
    fn sweep(&self, _tier: Tier) -> Vec<Case> {
        long_cases()
    }
    fn check(&self, case: &Case, cx: &Cx) -> Verdict {
        overflow_checked(case, "not-maximal", || self.check_inner(case, cx))
    }
}

impl Best {
    fn check_inner(&self, case: &Case, cx: &Cx) -> Verdict {
        if case.mat.m() == 0 {
            return Verdict::Pass(CaseInfo::new());
        }
        let s = setup(case);
        let wrap_sig = format!("{}:not-maximal:{}", arm_sig(case.arm), WRAP_CLASS);
        let wrap_sig2 = format!("{}:none-but-hits:{}", arm_sig(case.arm), WRAP_CLASS);
        if case.arm != Arm::Avx2 && s.u8_overflow && (cx.is_excluded(&wrap_sig) || cx.is_excluded(&wrap_sig2)) {
            return Verdict::Skip(wrap_sig);
        }
        let n = s.r32.len();
        let t1 = s.thr.unwrap_or(0.0);
        // the threshold in force when max() is called: raised (never lowered) after the next() calls
        let raise = case
            .raise
            .as_ref()
            .and_then(|r| resolve_thr(r, &s.r32, s.pssm.min_score(), s.pssm.max_score()))
            .filter(|&t2| t2 >= t1)
            // (only for Scanner::max itself: the routes that go through next() hand out hits buffered under the
            // earlier threshold, and what next() owes after a threshold change is not specified)
            .filter(|_| case.best_route == 0);
        let t = raise.unwrap_or(t1);
        let hits: Vec<usize> = (0..n).filter(|&i| s.r32[i] >= t).collect();
        let mut info = CaseInfo::new();
        classify(case, &s, hits.len(), &mut info);
        info.class_if(case.consumed > 0, "k>0");
        info.class_if(case.best_route == 1, "best-through-&mut-Scanner(Iterator::max,Ord-of-Hit)");
        info.class_if(case.best_route == 2, "best-of-collected-hits(Ord-of-Hit)");
        info.class_if(raise.map_or(false, |t2| t2 > t1), "threshold-raised-before-max");
        info.class_if(raise.map_or(false, |t2| t2 > t1) && case.consumed > 0 && (0..n).any(|i| s.r32[i] >= t1 && s.r32[i] < t), "threshold-raised-above-earlier-hits");
        // non-triviality
        let dm = s.pssm.to_discrete();
        let step = if hits.is_empty() { 0.0 } else { (dm.unscale(1) - dm.unscale(0)).abs() };
        let best_all = hits.iter().map(|&i| s.r32[i]).fold(f32::NEG_INFINITY, f32::max);
        let near = hits.iter().filter(|&&i| s.r32[i] < best_all && best_all - s.r32[i] <= step).count();
        let ties = hits.iter().filter(|&&i| s.r32[i] == best_all).count();
        info.class_if(near > 0, "runner-up-within-one-8bit-step");
        info.class_if(ties > 1, "tie-on-best-score");
        let tb = dm.scale(t);
        let false_candidates = hits.is_empty() && n > 0 && (0..n).any(|i| dm.scale(s.r32[i]) >= tb && s.r32[i] < t);
        info.class_if(false_candidates, "no-hit-but-8bit-candidates");
        info.nontrivial = near > 0 || false_candidates || (case.consumed > 0 && hits.len() > 1);

        let _g = case.arm.force();
        let mut blocks = vec![case.block.clone()];
        blocks.extend(case.alt_blocks.iter().cloned());
        for (bi, block) in blocks.iter().enumerate() {
            let k = if bi == 0 { case.consumed } else { 0 };
            let (consumed, best) = run_max(case, &s, block, k, bi == 0, raise);
            // consumed hits must be genuine and distinct (C02's business, but the oracle needs it)
            let remaining: Vec<usize> = hits.iter().cloned().filter(|i| !consumed.contains(i)).collect();
            info.comparisons += 1;
            let sig = |kind: &str| format!("{}:{}", arm_sig(case.arm), kind);
            let ctx = format!(
                "threshold {:?}{}, block {:?}, k={}, L={}, M={}, rows={}, wrap={}",
                t,
                if raise.is_some() { format!(" (raised from {:?} after the next() calls)", t1) } else { String::new() },
                block.resolve(s.rows),
                consumed.len(),
                s.idx.len(),
                s.m,
                s.rows,
                s.striped.wrap()
            );
            match best {
                None => {
                    if !remaining.is_empty() {
                        let class = if s.u8_overflow && case.arm != Arm::Avx2 { WRAP_CLASS } else { "u8-sum<=255" };
                        return Verdict::Fail(Failure::new(
                            sig(&format!("none-but-hits:{}", class)),
                            format!("{}: max() = None but {} unconsumed positions score >= t (e.g. {} scoring {:?})", ctx, remaining.len(), remaining[0], s.r32[remaining[0]]),
                        ));
                    }
                }
                Some((pos, score)) => {
                    if remaining.is_empty() {
                        return Verdict::Fail(Failure::new(
                            sig("hit-below-threshold"),
                            format!("{}: max() = ({}, {:?}) but no unconsumed position scores >= t", ctx, pos, score),
                        ));
                    }
                    if pos >= n {
                        return Verdict::Fail(Failure::new(sig("hit-past-last-position"), format!("{}: max() position {} > L-M = {}", ctx, pos, n - 1)));
                    }
                    if score.to_bits() != s.r32[pos].to_bits() && score != s.r32[pos] {
                        return Verdict::Fail(Failure::new(
                            sig("wrong-score"),
                            format!("{}: max() reports {:?} at {} whose score is {:?}", ctx, score, pos, s.r32[pos]),
                        ));
                    }
                    if !remaining.contains(&pos) {
                        let kind = if consumed.contains(&pos) { "consumed-hit-returned" } else { "hit-below-threshold" };
                        return Verdict::Fail(Failure::new(sig(kind), format!("{}: max() = ({}, {:?}) is not an unconsumed hit", ctx, pos, score)));
                    }
                    let bestrem = remaining.iter().map(|&i| s.r32[i]).fold(f32::NEG_INFINITY, f32::max);
                    if score != bestrem {
                        let class = if s.u8_overflow && case.arm != Arm::Avx2 { WRAP_CLASS } else { "u8-sum<=255" };
                        let bp = remaining.iter().find(|&&i| s.r32[i] == bestrem).unwrap();
                        return Verdict::Fail(Failure::new(
                            sig(&format!("not-maximal:{}", class)),
                            format!("{}: max() = ({}, {:?}) but position {} scores {:?}", ctx, pos, score, bp, bestrem),
                        ));
                    }
                }
            }
        }
        Verdict::Pass(info)
    }
}

pub fn property03() -> Property {
    Property {
        id: "C03",
        subs: vec![Box::new(Best)],
        assumptions: vec![
            "only the score of the best hit is specified; any position holding the maximum is accepted (no tie rule)",
            "'the exact score' is the f32 left-to-right sum; compared bit-exactly",
            "consumed hits are whatever next() returned before max(); they are excluded from the expected set",
            "the threshold is the one in force when max() is called; it is only ever raised on a running scanner (lowering it would leave open whether positions of blocks already scanned count)",
            "thresholds are numbers (no NaN); block sizes >= 1",
        ],
    }
}
