//! Exact tail oracle: the distribution of `S = sum_j m[j][X_j]`, `X_j` i.i.d. from
//! a background, computed in f64 from the f32 cells by meet-in-the-middle.
//!
//! The rows are split in two halves; all (sum, probability) pairs of each half are
//! enumerated (symbols of probability zero and -inf cells are dropped: those words
//! carry no mass / never reach a finite threshold); the second half is sorted by
//! sum with suffix-cumulated probabilities, so `P(S >= x)` costs
//! O(|first half| * log |second half|).

pub struct Tail {
    a: Vec<(f64, f64)>,
    b_sum: Vec<f64>,
    /// b_cum[i] = sum of probabilities of b_sum[i..]
    b_cum: Vec<f64>,
    pub total_mass: f64,
    pub min: f64,
    pub max: f64,
}

fn enumerate(rows: &[Vec<f32>], probs: &[f64]) -> Vec<(f64, f64)> {
    let mut cur: Vec<(f64, f64)> = vec![(0.0, 1.0)];
    for row in rows {
        let mut next = Vec::with_capacity(cur.len() * probs.len());
        for &(s, p) in &cur {
            for (j, &q) in probs.iter().enumerate() {
                if q > 0.0 && row[j].is_finite() {
                    next.push((s + row[j] as f64, p * q));
                }
            }
        }
        cur = next;
    }
    cur
}

impl Tail {
    /// `cells`: M rows; `probs`: probability of each column used (others must be 0).
    pub fn new(cells: &[Vec<f32>], probs: &[f64]) -> Tail {
        let half = cells.len() / 2;
        let a = enumerate(&cells[..half], probs);
        let mut b = enumerate(&cells[half..], probs);
        b.sort_by(|x, y| x.0.partial_cmp(&y.0).unwrap());
        let b_sum: Vec<f64> = b.iter().map(|x| x.0).collect();
        let mut b_cum = vec![0.0; b.len() + 1];
        for i in (0..b.len()).rev() {
            b_cum[i] = b_cum[i + 1] + b[i].1;
        }
        let total_mass = a.iter().map(|x| x.1).sum::<f64>() * b_cum[0];
        let amin = a.iter().map(|x| x.0).fold(f64::INFINITY, f64::min);
        let amax = a.iter().map(|x| x.0).fold(f64::NEG_INFINITY, f64::max);
        let (min, max) = if b_sum.is_empty() || a.is_empty() {
            (f64::INFINITY, f64::NEG_INFINITY)
        } else {
            (amin + b_sum[0], amax + b_sum[b_sum.len() - 1])
        };
        Tail { a, b_sum, b_cum, total_mass, min, max }
    }

    pub fn size(&self) -> usize {
        self.a.len() + self.b_sum.len()
    }

    /// P(S >= x)
    pub fn ge(&self, x: f64) -> f64 {
        let mut p = 0.0;
        for &(s, q) in &self.a {
            let need = x - s;
            let i = self.b_sum.partition_point(|&b| b < need);
            p += q * self.b_cum[i];
        }
        p
    }

    /// Largest attainable (positive probability) score strictly below `y`, if any.
    pub fn largest_below(&self, y: f64) -> Option<f64> {
        let mut best: Option<f64> = None;
        for &(s, _) in &self.a {
            let need = y - s;
            let i = self.b_sum.partition_point(|&b| b < need);
            if i > 0 {
                let v = s + self.b_sum[i - 1];
                // guard against s + b rounding up to >= y
                if v < y && best.map_or(true, |b| v > b) {
                    best = Some(v);
                }
            }
        }
        best
    }

    /// Number of distinct attainable scores (capped), for non-triviality rules.
    pub fn distinct_scores(&self, cap: usize) -> usize {
        let mut v: Vec<f64> = Vec::new();
        'outer: for &(s, _) in &self.a {
            for &b in &self.b_sum {
                v.push(s + b);
                if v.len() > 4096 {
                    break 'outer;
                }
            }
        }
        v.sort_by(|x, y| x.partial_cmp(y).unwrap());
        v.dedup_by(|x, y| (*x - *y).abs() < 1e-9);
        v.len().min(cap)
    }

    /// A few attainable scores (for query generation): quantiles of the sum set.
    pub fn some_scores(&self, picks: &[usize]) -> Vec<f64> {
        if self.a.is_empty() || self.b_sum.is_empty() {
            return Vec::new();
        }
        picks
            .iter()
            .map(|&p| {
                let a = self.a[p % self.a.len()].0;
                let b = self.b_sum[(p / 7) % self.b_sum.len()];
                a + b
            })
            .collect()
    }
}

#[cfg(test)]
mod tests {
    use super::*;
    #[test]
    fn tiny() {
        let cells = vec![vec![1.0f32, 2.0], vec![10.0, 20.0]];
        let t = Tail::new(&cells, &[0.25, 0.75]);
        assert!((t.ge(22.0) - 0.5625).abs() < 1e-12);
        assert!((t.ge(21.0) - 0.75).abs() < 1e-12);
        assert_eq!(t.largest_below(22.0), Some(21.0));
        assert_eq!(t.largest_below(11.0), None);
    }
}

/// Exact upper tail P(S >= x) for matrices too wide to enumerate: depth-first over the words, pruned by
/// the best score the remaining rows can still add. Feasible only for x near the maximum; gives up (None)
/// after `cap` visited prefixes.
pub struct UpperTail {
    rows: Vec<Vec<(f64, f64)>>,
    /// suffix_max[i] = largest score rows i.. can add
    suffix_max: Vec<f64>,
    pub max: f64,
}

impl UpperTail {
    pub fn new(cells: &[Vec<f32>], probs: &[f64]) -> UpperTail {
        let mut rows: Vec<Vec<(f64, f64)>> = cells
            .iter()
            .map(|r| {
                let mut v: Vec<(f64, f64)> = r.iter().zip(probs.iter()).filter(|(c, &q)| q > 0.0 && c.is_finite()).map(|(&c, &q)| (c as f64, q)).collect();
                // best symbols first: the pruning cuts a row's loop at the first symbol that cannot reach x
                v.sort_by(|a, b| b.0.partial_cmp(&a.0).unwrap());
                v
            })
            .collect();
        // rows with the widest spread first: prunes earliest
        rows.sort_by(|a, b| {
            let sa = a.first().map_or(0.0, |x| x.0) - a.last().map_or(0.0, |x| x.0);
            let sb = b.first().map_or(0.0, |x| x.0) - b.last().map_or(0.0, |x| x.0);
            sb.partial_cmp(&sa).unwrap()
        });
        let mut suffix_max = vec![0.0; rows.len() + 1];
        for i in (0..rows.len()).rev() {
            suffix_max[i] = suffix_max[i + 1] + rows[i].first().map_or(f64::NEG_INFINITY, |x| x.0);
        }
        let max = suffix_max[0];
        UpperTail { rows, suffix_max, max }
    }

    pub fn ge(&self, x: f64, cap: u64) -> Option<f64> {
        let mut visited = 0u64;
        let mut total = 0.0;
        if self.dfs(0, 0.0, 1.0, x, cap, &mut visited, &mut total) {
            Some(total)
        } else {
            None
        }
    }

    fn dfs(&self, i: usize, score: f64, prob: f64, x: f64, cap: u64, visited: &mut u64, total: &mut f64) -> bool {
        if i == self.rows.len() {
            if score >= x {
                *total += prob;
            }
            return true;
        }
        for &(c, q) in &self.rows[i] {
            if score + c + self.suffix_max[i + 1] < x {
                break; // symbols are sorted by decreasing score
            }
            *visited += 1;
            if *visited > cap {
                return false;
            }
            if !self.dfs(i + 1, score + c, prob * q, x, cap, visited, total) {
                return false;
            }
        }
        true
    }
}
