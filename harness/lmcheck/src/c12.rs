//! C12 — TFM-PVALUE p-value ranges are consistent with the exact score distribution.
//! C13 — TFM-PVALUE score thresholds are consistent with the exact score distribution.

use lightmotif::abc::Alphabet;
use lightmotif::pwm::ScoringMatrix;
use lightmotif_tfmpvalue::TfmPvalue;
use proptest::prelude::*;
use serde::{Deserialize, Serialize};

use crate::c11::exact_limit;
use crate::engine::*;
use crate::gen::*;
use crate::tail::Tail;

#[derive(Clone, Debug, Serialize, Deserialize)]
pub enum SQuery {
    BelowMin,
    Min,
    Attainable(usize),
    /// an attainable score plus a tiny amount
    JustAbove(usize),
    /// between an attainable score and the next one below
    Between(usize),
    Max,
    AboveMax,
    Value(Fl),
    /// the maximum attainable score minus j x 1e-7 (j = 1..=12): still reached by the best word, but below the
    /// maximum by less than single precision resolves for scores of ordinary size
    JustBelowMax(u8),
}

#[derive(Clone, Debug, Serialize, Deserialize)]
pub enum PQuery {
    /// exact tail probability of an attainable score
    TailOf(usize),
    /// between the tail probabilities of two neighbouring attainable scores
    BetweenTails(usize),
    BelowSmallest,
    NearOne,
    Value(u16, u8),
}

#[derive(Clone, Debug, Serialize, Deserialize)]
pub struct Case {
    pub abc: Abc,
    pub mat: MatSpec,
    pub scores: Vec<SQuery>,
    pub pvalues: Vec<PQuery>,
    /// the matrix is over `userabc::Abc41` (40 symbols and a wildcard, declared through the public traits) instead
    /// of `abc`: rows of 41 cells, width 2..3
    #[serde(default)]
    pub user41: bool,
}

/// Maximum number of refinement steps driven (granularity 0.1 .. 1e-8).
const MAX_STEPS: usize = 8;

fn mat_for(abc: Abc, tier: Tier) -> BoxedStrategy<MatSpec> {
    let k = abc.k();
    let lim = exact_limit(abc, tier).min(if abc == Abc::Dna { tier.pick(8, 10) } else { 3 });
    (2usize..=lim)
        .prop_flat_map(move |m| {
            let lib = mat_strategy(abc, Just(m).boxed(), Regimes { library: true, finite: false, neginf: false, small_int: false, near_tie: false });
            let fin = (
                proptest::collection::vec(proptest::collection::vec(prop_oneof![4 => -12.0f32..=12.0, 1 => (-6i32..=6).prop_map(|x| x as f32), 1 => (-60i32..=60).prop_map(|x| x as f32 / 10.0)], k), m),
                // including backgrounds that give the wildcard some frequency (the real symbols then sum below one)
                bg_strategy(k, true, false),
                prop_oneof![3 => Just(0u8), 1 => Just(1u8), 1 => Just(2u8)],
            )
                .prop_map(move |(rows, bg, wild)| {
                    let mut rows: Vec<Vec<Fl>> = rows.into_iter().map(|r| r.into_iter().map(Fl).collect()).collect();
                    for r in rows.iter_mut() {
                        match wild {
                            0 => r[k - 1] = Fl(f32::NEG_INFINITY),
                            1 => {
                                // a finite wildcard cell not above the row's real cells
                                let mn = r[..k - 1].iter().map(|x| x.0).fold(f32::INFINITY, f32::min);
                                r[k - 1] = Fl(mn);
                            }
                            _ => {}
                        }
                    }
                    MatSpec { rows, bg, regime: "finite".into() }
                })
                .boxed();
            // every cell a multiple of one grid step q (dyadic or decimal): the rounding error of the integer
            // matrix is large at granularities q does not divide and exactly 0 at the finer ones
            let grid = (
                prop_oneof![Just(0.5f32), Just(0.25f32), Just(0.125f32), Just(0.0625f32), Just(0.03125f32), Just(0.2f32), Just(0.05f32), Just(1.0f32)],
                proptest::collection::vec(proptest::collection::vec(-48i32..=48, k), m),
                bg_strategy(k, false, false),
                prop_oneof![3 => Just(0u8), 1 => Just(1u8), 1 => Just(2u8)],
            )
                .prop_map(move |(q, rows, bg, wild)| {
                    let mut rows: Vec<Vec<Fl>> = rows.into_iter().map(|r| r.into_iter().map(|n| Fl(n as f32 * q)).collect()).collect();
                    for r in rows.iter_mut() {
                        match wild {
                            0 => r[k - 1] = Fl(f32::NEG_INFINITY),
                            1 => {
                                let mn = r[..k - 1].iter().map(|x| x.0).fold(f32::INFINITY, f32::min);
                                r[k - 1] = Fl(mn);
                            }
                            _ => {}
                        }
                    }
                    MatSpec { rows, bg, regime: "grid".into() }
                });
            // the same arbitrary cells scaled by 2^-19 (about 2e-6, exact in f32): neighbouring attainable scores lie
            // 1e-7 .. 1e-12 apart, so the refinement needs ten and more steps before it can tell them apart
            let tiny = fin.clone().prop_map(|mut m| {
                for r in m.rows.iter_mut() {
                    for x in r.iter_mut() {
                        if x.0.is_finite() {
                            *x = Fl(x.0 * (1.0 / 524288.0));
                        }
                    }
                }
                m.regime = "tiny".into();
                m
            });
            // in a fifth of the declared matrices one or two rows say nothing: all their real cells hold the same
            // (non-zero) value - spacer columns of a bipartite motif after adding a constant
            let flat = prop_oneof![4 => Just(Vec::new()), 1 => proptest::collection::vec((any::<usize>(), prop_oneof![Just(1.5f32), Just(-2.25f32), Just(0.5f32), -6.0f32..6.0]), 1..=2)];
            (prop_oneof![4 => lib, 4 => fin, 2 => grid, 1 => tiny], flat).prop_map(move |(mut mat, flat)| {
                if mat.regime != "library" && mat.regime != "tiny" {
                    for (i, v) in flat {
                        let n = mat.rows.len();
                        for x in mat.rows[i % n][..k - 1].iter_mut() {
                            *x = Fl(v);
                        }
                    }
                }
                mat
            })
        })
        .boxed()
}

fn strategy(tier: Tier) -> BoxedStrategy<Case> {
    prop_oneof![5 => Just(Abc::Dna), 1 => Just(Abc::Protein)]
        .prop_flat_map(move |abc| {
            let sq = prop_oneof![
                1 => Just(SQuery::BelowMin),
                1 => Just(SQuery::Min),
                4 => any::<usize>().prop_map(SQuery::Attainable),
                3 => any::<usize>().prop_map(SQuery::JustAbove),
                3 => any::<usize>().prop_map(SQuery::Between),
                1 => Just(SQuery::Max),
                1 => Just(SQuery::AboveMax),
                2 => (1u8..=12).prop_map(SQuery::JustBelowMax),
                2 => (-60.0f32..60.0).prop_map(|v| SQuery::Value(Fl(v))),
            ];
            let pq = prop_oneof![
                4 => any::<usize>().prop_map(PQuery::TailOf),
                3 => any::<usize>().prop_map(PQuery::BetweenTails),
                1 => Just(PQuery::BelowSmallest),
                1 => Just(PQuery::NearOne),
                3 => (1u16..=999, 0u8..=6).prop_map(|(m, e)| PQuery::Value(m, e)),
            ];
            // one matrix in fourteen over the 40-symbol alphabet (width 2 or 3: 1600 / 64000 words)
            let wide = (2usize..=3).prop_flat_map(|m| {
                (proptest::collection::vec(proptest::collection::vec(prop_oneof![3 => -12.0f32..=12.0, 1 => (-24i32..=24).prop_map(|x| x as f32 / 4.0)], 41), m), bg_strategy(41, false, false)).prop_map(|(rows, bg)| {
                    let mut rows: Vec<Vec<Fl>> = rows.into_iter().map(|r| r.into_iter().map(Fl).collect()).collect();
                    for r in rows.iter_mut() {
                        r[40] = Fl(f32::NEG_INFINITY);
                    }
                    MatSpec { rows, bg, regime: "finite".into() }
                })
            });
            let mat = prop_oneof![13 => mat_for(abc, tier).prop_map(|m| (m, false)), 1 => wide.prop_map(|m| (m, true))];
            (Just(abc), mat, proptest::collection::vec(sq, 6..=12), proptest::collection::vec(pq, 6..=12))
        })
        .prop_map(|(abc, (mat, user41), scores, pvalues)| Case { abc, mat, scores, pvalues, user41 })
        .boxed()
}

struct Prep<A: Alphabet> {
    pssm: ScoringMatrix<A>,
    tail: Tail,
    m: usize,
    mass: f64,
    /// relative tolerance on probabilities: 1e-9 plus M times the distance of the
    /// background's total from one (the algorithm lets prefixes that already exceed
    /// the range skip the remaining rows, i.e. multiplies by 1 instead of (sum bg)^j)
    rel: f64,
    /// slack on scores in the direction that weakens a bound: 1e-9 for cells of ordinary size, scaled down with
    /// the largest cell when every cell is tiny (the exact tail is a sum of f64 values, accurate to ~1e-16 relative)
    eps: f64,
    /// refinement steps driven: 8 (granularity 0.1 .. 1e-8); 12 for tiny cells, whose refinement only starts to
    /// separate scores at granularities below 1e-7 and whose tables stay small
    steps: usize,
}

fn prep<A: Alphabet>(case: &Case) -> Prep<A> {
    let k = A::symbols().len();
    let cells = case.mat.cells();
    let pssm = build_pssm::<A>(&case.mat);
    // TFM-PVALUE works over the K-1 real symbols
    let mut bg: Vec<f64> = pssm.background().frequencies().iter().map(|&x| x as f64).collect();
    bg[k - 1] = 0.0;
    let tail = Tail::new(&cells, &bg);
    let total: f64 = bg.iter().sum();
    let mass = total.powi(cells.len() as i32);
    // (until F25 was fixed this carried a term 2M|sum bg - 1|: the library counted the completions of a pruned
    // prefix with mass 1 instead of (sum bg)^j, which for an f32 background is off by 1e-7 and for a background
    // giving the wildcard some frequency by a large factor)
    let rel = 1e-9;
    let _ = total;
    let maxabs = cells.iter().flat_map(|r| r.iter()).filter(|x| x.is_finite()).fold(0.0f64, |a, &x| a.max((x as f64).abs()));
    let tiny = maxabs > 0.0 && maxabs < 1e-3;
    let eps = 1e-9 * if tiny { maxabs } else { 1.0 };
    let steps = if tiny { 12 } else { MAX_STEPS };
    Prep { pssm, tail, m: cells.len(), mass, rel, eps, steps }
}

fn classify(case: &Case, k: usize, bgf: &[f32], info: &mut CaseInfo) {
    info.class_if(case.abc == Abc::Dna && !case.user41, "dna");
    info.class_if(case.abc == Abc::Protein && !case.user41, "protein");
    info.class_if(case.user41, "caller-declared-alphabet-of-40-symbols");
    let u = bgf[0];
    info.class_if(bgf[..k - 1].iter().any(|&x| (x - u).abs() > 1e-6), "non-uniform-background");
    info.class_if(case.mat.rows.iter().any(|r| r[k - 1].0.is_finite()), "finite-wildcard-column");
    info.class_if(bgf[k - 1] > 0.0, "background-gives-the-wildcard-some-frequency");
    info.class_if(case.mat.rows.iter().any(|r| r[0].0 != 0.0 && r[..k - 1].iter().all(|x| x.0 == r[0].0)), "a-row-of-equal-non-zero-cells");
    info.class(match case.mat.regime.as_str() { "library" => "mat:library", "grid" => "mat:grid-valued", "tiny" => "mat:tiny-cells(~2e-6)", _ => "mat:finite" });
}

// ---------------------------------------------------------------------------
// C12
// ---------------------------------------------------------------------------

pub struct PvalueRanges;

fn run12<A: Alphabet>(case: &Case, info: &mut CaseInfo) -> Option<Failure> {
    let p = prep::<A>(case);
    let k = A::symbols().len();
    classify(case, k, p.pssm.background().frequencies(), info);
    let t = &p.tail;
    let picks: Vec<usize> = case
        .scores
        .iter()
        .filter_map(|q| match q {
            SQuery::Attainable(i) | SQuery::JustAbove(i) | SQuery::Between(i) => Some(*i),
            _ => None,
        })
        .collect();
    let att = t.some_scores(&picks);
    let mut ai = 0;
    let mut queries: Vec<(f64, &'static str)> = Vec::new();
    for q in &case.scores {
        match q {
            SQuery::BelowMin => queries.push((t.min - 1.5, "below-min")),
            SQuery::Min => queries.push((t.min, "min")),
            SQuery::Max => queries.push((t.max, "max")),
            SQuery::AboveMax => queries.push((t.max + 1.5, "above-max")),
            SQuery::JustBelowMax(j) => queries.push((t.max - (*j).clamp(1, 12) as f64 * 1e-7, "just-below-max")),
            SQuery::Value(v) => queries.push((v.0 as f64, "value")),
            SQuery::Attainable(_) => {
                if ai < att.len() {
                    queries.push((att[ai], "attainable"));
                }
                ai += 1;
            }
            SQuery::JustAbove(_) => {
                if ai < att.len() {
                    queries.push((att[ai] + 1e-4, "just-above-attainable"));
                }
                ai += 1;
            }
            SQuery::Between(_) => {
                if ai < att.len() {
                    let below = t.largest_below(att[ai] - 1e-9).unwrap_or(att[ai] - 1.0);
                    queries.push(((att[ai] + below) / 2.0, "between"));
                }
                ai += 1;
            }
        }
    }
    let m = p.m as f64;
    let cap = p.mass.max(1.0) * (1.0 + p.rel);
    let mut tfmp = TfmPvalue::new(&p.pssm);
    let mut adaptors_done = false;
    let mut max_steps = 0;
    let mut inside = false;
    for (s, kind) in queries {
        if !s.is_finite() {
            continue;
        }
        let mut steps = 0;
        let mut last_converged = false;
        let check_item = |it: &lightmotif_tfmpvalue::Iteration, how: &str| -> Option<Failure> {
            let g = it.granularity;
            let (pmin, pmax) = (*it.range.start(), *it.range.end());
            let ctx = || format!("score {} ({}), {}granularity {:e}, M={}: range [{:e}, {:e}]", s, kind, how, g, p.m, pmin, pmax);
            if !(pmin >= 0.0 && pmin <= pmax) {
                return Some(Failure::new("pvalue:range-order", format!("{}: not an ordered range of probabilities", ctx())));
            }
            if !(pmax <= cap) {
                return Some(Failure::new("pvalue:above-one", format!("{}: pmax exceeds the total probability mass {}", ctx(), p.mass)));
            }
            let lo = t.ge(s + (m + 1.0) * g + 1e-9);
            let hi = t.ge(s - (m + 2.0) * g - 1e-9);
            if pmin < lo - (p.rel * lo + 1e-15) {
                return Some(Failure::new("pvalue:pmin-below-exact", format!("{}: pmin < P(S >= s+(M+1)g) = {:e}", ctx(), lo)));
            }
            if pmax > hi + (p.rel * hi + 1e-15) {
                return Some(Failure::new("pvalue:pmax-above-exact", format!("{}: pmax > P(S >= s-(M+2)g) = {:e}", ctx(), hi)));
            }
            None
        };
        for it in tfmp.approximate_pvalue(s).take(MAX_STEPS) {
            steps += 1;
            info.comparisons += 1;
            if let Some(f) = check_item(&it, "") {
                return Some(f);
            }
            last_converged = it.converged;
            if it.converged {
                // the final p-value is the lower end of the range: same bounds, already checked
                break;
            }
        }
        // the same steps reached through the iterator's positional adaptors (first query of a case only:
        // each costs a fresh object and a few refinements)
        if !adaptors_done {
            adaptors_done = true;
            let stepped: Vec<lightmotif_tfmpvalue::Iteration> = TfmPvalue::new(&p.pssm).approximate_pvalue(s).take(3).collect();
            for n in 1..=2usize {
                let jumped = TfmPvalue::new(&p.pssm).approximate_pvalue(s).nth(n);
                let skipped = TfmPvalue::new(&p.pssm).approximate_pvalue(s).skip(n).next();
                for (how, it) in [("nth: ", &jumped), ("skip: ", &skipped)] {
                    info.comparisons += 1;
                    if let Some(it) = it {
                        if let Some(f) = check_item(it, how) {
                            return Some(f);
                        }
                    }
                    // stepping n+1 times and jumping there are the same iteration
                    let same = match (stepped.get(n), it) {
                        (None, None) => true,
                        (Some(a), Some(b)) => a.granularity == b.granularity && a.range == b.range && a.converged == b.converged && a.score == b.score,
                        _ => false,
                    };
                    if !same {
                        return Some(Failure::new("pvalue:adaptor", format!("score {} ({}): {}{} does not give the iteration that {} next() calls give", s, kind, how, n, n + 1)));
                    }
                }
            }
        }
        if last_converged {
            // `pvalue()` only when the bounded run converged (it would spin otherwise)
            let pv = tfmp.pvalue(s);
            let g = 10f64.powi(-(steps as i32));
            let lo = t.ge(s + (m + 1.0) * g + 1e-9);
            let hi = t.ge(s - (m + 2.0) * g - 1e-9);
            if pv < lo - (p.rel * lo + 1e-15) || pv > hi + (p.rel * hi + 1e-15) {
                return Some(Failure::new("pvalue:final", format!("pvalue({}) = {:e} outside [{:e}, {:e}] at the final granularity {:e}", s, pv, lo, hi, g)));
            }
        }
        max_steps = max_steps.max(steps);
        if s > t.min && s < t.max {
            inside = true;
        }
    }
    info.nontrivial = p.m >= 3 && inside && max_steps >= 2;
    info.class_if(max_steps >= MAX_STEPS, "not-converged-in-8-steps");
    None
}

impl Sub for PvalueRanges {
    type Case = Case;
    fn name(&self) -> &'static str {
        "pvalue-ranges"
    }
    fn rule(&self) -> &'static str {
        "DNA width 2..8 (quick) / ..12 (thorough), protein 2..3, and (one matrix in fourteen) a caller-declared alphabet of 40 symbols and a wildcard, width 2..3; library-made, arbitrary finite and grid-valued (every cell a multiple of 1/2 .. 1/32, 0.2, 0.05 or 1) matrices (wildcard column -inf, = row minimum, or arbitrary finite) x uniform / non-uniform backgrounds, also ones giving the wildcard some frequency (the real symbols then carry less than unit mass per position); 6..12 scores per matrix (below min, min, exactly attainable, just above attainable, between, max, 1e-7..1.2e-6 below max, above max, arbitrary); approximate_pvalue driven for at most 8 refinement steps; every step: 0 <= pmin <= pmax <= total mass, P(S>=s+(M+1)g) <= pmin, pmax <= P(S>=s-(M+2)g) against exact meet-in-the-middle enumeration over the real symbols; pvalue() checked when the bounded run converged; non-trivial = M >= 3, a query strictly inside (min, max) and >= 2 refinement steps"
    }
    fn cases(&self, tier: Tier) -> u64 {
        tier.pick(20_000, 150_000)
    }
    fn strategy(&self, tier: Tier) -> BoxedStrategy<Case> {
        strategy(tier)
    }
    fn check(&self, case: &Case, _cx: &Cx) -> Verdict {
        if case.mat.m() < 2 {
            return Verdict::Pass(CaseInfo::new());
        }
        let mut info = CaseInfo::new();
        let f = if case.user41 { run12::<crate::userabc::Abc41>(case, &mut info) } else { with_abc!(case.abc, A => run12::<A>(case, &mut info)) };
        match f {
            Some(f) => Verdict::Fail(f),
            None => Verdict::Pass(info),
        }
    }
}

// --- long motifs: the upper tail only -------------------------------------------------------

#[derive(Clone, Debug, Serialize, Deserialize)]
pub struct LongCase {
    pub abc: Abc,
    pub mat: MatSpec,
    /// scores as distances below the maximum attainable score
    pub below_max: Vec<Fl>,
}

pub struct LongMotifs;

fn run_long<A: Alphabet>(case: &LongCase, info: &mut CaseInfo) -> Option<Failure> {
    let k = case.abc.k();
    let cells = case.mat.cells();
    let m = cells.len() as f64;
    let pssm = build_pssm::<A>(&case.mat);
    let mut bg: Vec<f64> = pssm.background().frequencies().iter().map(|&x| x as f64).collect();
    bg[k - 1] = 0.0;
    let total: f64 = bg.iter().sum();
    let rel = 1e-9;
    let _ = total;
    let t = crate::tail::UpperTail::new(&cells, &bg);
    let cap = if cells.len() > 34 { 300_000u64 } else { 3_000_000u64 };
    let mut tfmp = TfmPvalue::new(&pssm);
    info.class_if(cells.len() > 34, "M>34");
    info.class_if(cells.len() >= 70, "M>=70");
    for d in &case.below_max {
        let s = t.max - d.0 as f64;
        for it in tfmp.approximate_pvalue(s).take(4) {
            let g = it.granularity;
            let (pmin, pmax) = (*it.range.start(), *it.range.end());
            let ctx = || format!("score max-{} = {}, granularity {:e}, M={}: range [{:e}, {:e}]", d.0, s, g, cells.len(), pmin, pmax);
            if !(pmin >= 0.0 && pmin <= pmax) {
                return Some(Failure::new("pvalue:range-order", format!("{}: not an ordered range of probabilities", ctx())));
            }
            // the lower bound needs the (small) tail above s+(M+1)g, the upper bound the larger one above s-(M+2)g
            if let Some(lo) = t.ge(s + (m + 1.0) * g + 1e-9, cap) {
                info.comparisons += 1;
                if lo > 0.0 {
                    info.nontrivial = true;
                }
                if pmin < lo - (rel * lo + 1e-300) {
                    return Some(Failure::new("pvalue:pmin-below-exact", format!("{}: pmin < P(S >= s+(M+1)g) = {:e}", ctx(), lo)));
                }
            }
            if let Some(hi) = t.ge(s - (m + 2.0) * g - 1e-9, cap) {
                info.comparisons += 1;
                if pmax > hi + (rel * hi + 1e-300) {
                    return Some(Failure::new("pvalue:pmax-above-exact", format!("{}: pmax > P(S >= s-(M+2)g) = {:e}", ctx(), hi)));
                }
            } else {
                info.class("upper-bound-tail-too-large-to-enumerate(skipped)");
            }
            if it.converged {
                break;
            }
        }
    }
    info.class_if(case.abc == Abc::Dna, "dna");
    info.class_if(case.abc == Abc::Protein, "protein");
    info.class_if(cells.len() >= 27, "M>=27");
    None
}

impl Sub for LongMotifs {
    type Case = LongCase;
    fn name(&self) -> &'static str {
        "long-motifs-upper-tail"
    }
    fn rule(&self) -> &'static str {
        "motifs too wide for full enumeration (DNA width 14..34 and, three in eight, 35..130; protein 6..15 and 16..60; arbitrary finite, grid-valued and library-made cells) queried 0.3 .. 6 score units below their maximum; approximate_pvalue driven for at most 4 steps; the exact tails P(S>=s+(M+1)g) and P(S>=s-(M+2)g) come from a depth-first enumeration of the words pruned by the best remaining score (given up after 3e6 prefixes, 3e5 beyond 34 positions: that bound is then skipped and counted); non-trivial = a step whose lower-bound tail is positive"
    }
    fn cases(&self, tier: Tier) -> u64 {
        tier.pick(1_500, 40_000)
    }
    fn strategy(&self, _tier: Tier) -> BoxedStrategy<LongCase> {
        prop_oneof![3 => Just(Abc::Dna), 1 => Just(Abc::Protein)]
            .prop_flat_map(|abc| {
                let k = abc.k();
                // mostly just beyond enumeration; three in eight much wider (to 130 / 60 positions: real motif
                // collections have such entries, and window sizes grow with the width)
                let width = if abc == Abc::Dna { prop_oneof![5 => 14usize..=34, 3 => 35usize..=130].boxed() } else { prop_oneof![5 => 6usize..=15, 2 => 16usize..=60].boxed() };
                let mat = width.prop_flat_map(move |m| {
                    let fin = (proptest::collection::vec(proptest::collection::vec(-6.0f32..=6.0, k), m), bg_strategy(k, false, false)).prop_map(move |(rows, bg)| {
                        let mut rows: Vec<Vec<Fl>> = rows.into_iter().map(|r| r.into_iter().map(Fl).collect()).collect();
                        for r in rows.iter_mut() {
                            r[k - 1] = Fl(f32::NEG_INFINITY);
                        }
                        MatSpec { rows, bg, regime: "finite".into() }
                    });
                    let lib = mat_strategy(abc, Just(m).boxed(), Regimes { library: true, finite: false, neginf: false, small_int: false, near_tie: false });
                    prop_oneof![2 => fin, 1 => lib]
                });
                (Just(abc), mat, proptest::collection::vec((0.3f32..6.0).prop_map(Fl), 1..=5))
            })
            .prop_map(|(abc, mat, below_max)| LongCase { abc, mat, below_max })
            .boxed()
    }
    fn check(&self, case: &LongCase, _cx: &Cx) -> Verdict {
        let mut info = CaseInfo::new();
        let f = with_abc!(case.abc, A => run_long::<A>(case, &mut info));
        match f {
            Some(f) => Verdict::Fail(f),
            None => Verdict::Pass(info),
        }
    }
}

pub fn property12() -> Property {
    Property {
        id: "C12",
        subs: vec![Box::new(PvalueRanges), Box::new(LongMotifs)],
        assumptions: vec![
            "finite non-wildcard entries; S ranges over the K-1 real symbols with the matrix's background (f32 values widened to f64, not renormalised)",
            "the refinement is driven for at most 8 steps (granularity 0.1 .. 1e-8): for exactly attainable scores it need not converge, so the unbounded pvalue() is only called after the bounded run converged",
            "'within [0,1]' is read as <= max(1, (sum bg)^M)*(1+1e-9): an f32 background may carry total mass 1+M*6e-8",
            "S ranges over the words of real symbols, each with the product of its symbols' background frequencies: under a background that gives the wildcard some frequency the total mass is (sum of real frequencies)^M < 1, and the exact tails are taken in that measure",
            "probabilities compared with 1e-9*value + 1e-15; score arguments widened by 1e-9 in the weakening direction",
        ],
    }
}

// ---------------------------------------------------------------------------
// C13
// ---------------------------------------------------------------------------

/// Is `p` within 1e-6 (relative) of the exact tail probability of an attainable score?
fn near_tie(t: &Tail, p: f64) -> bool {
    // P(S >= x) is a non-increasing step function of x: bisect for the first x
    // where it drops to <= p(1+1e-6); just below that x it is the smallest value above the band
    let (mut lo, mut hi) = (t.min - 1.0, t.max + 1.0);
    if t.ge(hi) > p * (1.0 + 1e-6) {
        return false;
    }
    for _ in 0..80 {
        let mid = (lo + hi) / 2.0;
        if t.ge(mid) <= p * (1.0 + 1e-6) {
            hi = mid;
        } else {
            lo = mid;
        }
    }
    // the value of the step reached at `hi`
    t.ge(hi) >= p * (1.0 - 1e-6)
}

pub struct ScoreThresholds;

fn run13<A: Alphabet>(case: &Case, cx: &Cx, info: &mut CaseInfo) -> Option<Failure> {
    let p = prep::<A>(case);
    let k = A::symbols().len();
    classify(case, k, p.pssm.background().frequencies(), info);
    let t = &p.tail;
    let picks: Vec<usize> = case
        .pvalues
        .iter()
        .filter_map(|q| match q {
            PQuery::TailOf(i) | PQuery::BetweenTails(i) => Some(*i),
            _ => None,
        })
        .collect();
    let att = t.some_scores(&picks);
    let eps = p.eps;
    let smallest = t.ge(t.max - eps);
    let mut ai = 0;
    let mut ps: Vec<(f64, &'static str)> = Vec::new();
    for q in &case.pvalues {
        match q {
            PQuery::TailOf(_) => {
                if ai < att.len() {
                    ps.push((t.ge(att[ai] - eps * 1e-3), "attainable-tail"));
                }
                ai += 1;
            }
            PQuery::BetweenTails(_) => {
                if ai < att.len() {
                    let a = t.ge(att[ai] - eps * 1e-3);
                    let below = t.largest_below(att[ai] - eps);
                    let b = below.map(|x| t.ge(x - eps * 1e-3)).unwrap_or(1.0);
                    ps.push(((a + b) / 2.0, "between-tails"));
                }
                ai += 1;
            }
            PQuery::BelowSmallest => ps.push((smallest / 2.0, "below-smallest-tail")),
            PQuery::NearOne => ps.push((0.999, "near-one")),
            PQuery::Value(mant, e) => ps.push((*mant as f64 / 1000.0 * 10f64.powi(-(*e as i32)), "value")),
        }
    }
    let m = p.m as f64;
    let mut tfmp = TfmPvalue::new(&p.pssm);
    let mut adaptors_done = false;
    let mut interesting = false;
    let mut tolerated = 0u64;
    for (pv, kind) in ps {
        if !(pv > 0.0 && pv < 1.0) {
            continue;
        }
        if pv > smallest && pv < 1.0 {
            interesting = true;
        }
        let tau = p.rel * pv + 1e-15;
        // the library may panic in lookup_score (known finding KF19): run each query
        // under its own catch_unwind so that the search continues behind it
        let check_item = |it: &lightmotif_tfmpvalue::Iteration, how: &str| -> Option<Failure> {
            let g = it.granularity;
            let thr = it.score;
            let d = (m + 2.0) * g;
            let ctx = || format!("p = {:e} ({}), {}granularity {:e}, M={}: threshold {}", pv, kind, how, g, p.m, thr);
            if !thr.is_finite() {
                return Some(Failure::new("score:not-finite", ctx()));
            }
            let above = t.ge(thr + d + eps);
            if std::env::var("LMCHECK_DEBUG").is_ok() {
                eprintln!(
                    "p={:e} g={:e} t={} range=[{:e},{:e}] conv={} P(S>=t)={:e} P(S>=t+d)={:e} u={:?}",
                    pv, g, thr, it.range.start(), it.range.end(), it.converged, t.ge(thr), above, t.largest_below(thr - d - eps)
                );
            }
            if above > pv + tau {
                return Some(Failure::new("score:too-low", format!("{}: P(S >= t+d) = {:e} exceeds p (d = (M+2)g = {:e})", ctx(), above, d)));
            }
            if let Some(u) = t.largest_below(thr - d - eps) {
                let pu = t.ge(u - d - eps);
                if pu < pv - tau {
                    return Some(Failure::new(
                        "score:too-high",
                        format!("{}: the largest attainable score below t-d is {} and P(S >= u-d) = {:e} is still below p", ctx(), u, pu),
                    ));
                }
            }
            None
        };
        let first_query = !adaptors_done;
        adaptors_done = true;
        let outcome = catch_inner(|| -> Option<Failure> {
            for it in tfmp.approximate_score(pv).take(p.steps) {
                if let Some(f) = check_item(&it, "") {
                    return Some(f);
                }
                if it.converged {
                    break;
                }
            }
            // the same steps reached through the iterator's positional adaptors, on fresh objects (first
            // query of a case only)
            if first_query {
                let stepped: Vec<lightmotif_tfmpvalue::Iteration> = TfmPvalue::new(&p.pssm).approximate_score(pv).take(3).collect();
                for n in 1..=2usize {
                    let jumped = TfmPvalue::new(&p.pssm).approximate_score(pv).nth(n);
                    let skipped = TfmPvalue::new(&p.pssm).approximate_score(pv).skip(n).next();
                    for (how, it) in [("nth: ", &jumped), ("skip: ", &skipped)] {
                        if let Some(it) = it {
                            if let Some(f) = check_item(it, how) {
                                return Some(f);
                            }
                        }
                        let same = match (stepped.get(n), it) {
                            (None, None) => true,
                            (Some(a), Some(b)) => a.granularity == b.granularity && a.range == b.range && a.converged == b.converged && a.score == b.score,
                            _ => false,
                        };
                        if !same {
                            return Some(Failure::new("score:adaptor", format!("p = {:e} ({}): {}{} does not give the iteration that {} next() calls give", pv, kind, how, n, n + 1)));
                        }
                    }
                }
            }
            None
        });
        info.comparisons += 1;
        match outcome {
            Ok(None) => {}
            Ok(Some(f)) => return Some(f),
            Err((loc, msg)) => {
                // classify the panic by its input class: is p (numerically) the exact tail
                // probability of an attainable score?
                let tie = near_tie(t, pv);
                let sig = format!("{}:{}", panic_sig(&loc, &msg), if tie { "p=attainable-tail(+-1e-6)" } else { "p-not-a-tail" });
                if cx.is_excluded(&sig) {
                    tolerated += 1;
                    tfmp = TfmPvalue::new(&p.pssm);
                    continue;
                }
                return Some(Failure::new(sig, format!("p = {:e} ({}), M={}: panicked at {}: {}", pv, kind, p.m, loc, msg)));
            }
        }
    }
    info.class_if(tolerated > 0, "query-hit-known-panic(KF19, tolerated)");
    info.nontrivial = p.m >= 3 && interesting;
    None
}

impl Sub for ScoreThresholds {
    type Case = Case;
    fn name(&self) -> &'static str {
        "score-thresholds"
    }
    fn rule(&self) -> &'static str {
        "same matrices as C12 (library-made, arbitrary finite, grid-valued, and arbitrary finite cells scaled by 2^-19); 6..12 p-values per matrix (exact tail probabilities of attainable scores, values between two neighbouring tails, below the smallest tail, near 1, arbitrary); approximate_score driven for at most 8 steps (12 for the matrices whose cells are scaled down to ~2e-6, one in eleven, where refinement goes on below granularity 1e-8); every step with d=(M+2)g: P(S>=t+d) <= p and, with u the largest positive-probability score below t-d, P(S>=u-d) >= p, against exact enumeration; non-trivial = M >= 3 and a p strictly between the smallest tail and 1"
    }
    fn cases(&self, tier: Tier) -> u64 {
        tier.pick(20_000, 150_000)
    }
    fn strategy(&self, tier: Tier) -> BoxedStrategy<Case> {
        strategy(tier)
    }
    fn check(&self, case: &Case, cx: &Cx) -> Verdict {
        if case.mat.m() < 2 {
            return Verdict::Pass(CaseInfo::new());
        }
        let mut info = CaseInfo::new();
        let f = if case.user41 { run13::<crate::userabc::Abc41>(case, cx, &mut info) } else { with_abc!(case.abc, A => run13::<A>(case, cx, &mut info)) };
        match f {
            Some(f) => Verdict::Fail(f),
            None => Verdict::Pass(info),
        }
    }
}

pub fn property13() -> Property {
    Property {
        id: "C13",
        subs: vec![Box::new(ScoreThresholds)],
        assumptions: vec![
            "finite non-wildcard entries; S over the K-1 real symbols with the matrix's background",
            "'attainable' means attained by a word of positive probability (weaker than counting zero-probability words, hence sound)",
            "refinement bounded to 8 steps (12 for matrices of tiny cells, ~2e-6: there the steps below 1e-8 are the ones that separate neighbouring scores, and the tables stay small); probabilities compared with 1e-9*p + 1e-15; scores widened by 1e-9 (times the largest cell when that is below 1e-3) in the weakening direction",
        ],
    }
}
