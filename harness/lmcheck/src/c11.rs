//! C11 — MEME-style score distribution agrees with the exact tail within its resolution.

use lightmotif::abc::Alphabet;
use lightmotif::pwm::ScoringMatrix;
use proptest::prelude::*;
use serde::{Deserialize, Serialize};

use crate::engine::*;
use crate::gen::*;
use crate::tail::{Tail, UpperTail};

#[derive(Clone, Debug, Serialize, Deserialize)]
pub enum Query {
    /// an attainable score (picked from the exact distribution)
    Attainable(usize),
    /// midpoint between an attainable score and the next one
    Mid(usize),
    BelowMin,
    AboveMax,
    Value(Fl),
}

#[derive(Clone, Debug, Serialize, Deserialize)]
pub struct Case {
    pub abc: Abc,
    pub mat: MatSpec,
    pub queries: Vec<Query>,
    /// p-values as mantissa/exponent: p = m/1000 * 10^-e, plus exact tail picks
    pub pvalues: Vec<(u16, u8)>,
    /// how the matrix object came to be and how its distribution is asked for: 0 = built directly,
    /// `to_score_distribution()`; 1 (DNA) = the reverse complement of the mirror-image matrix, AFTER that matrix was
    /// asked for its own distribution - same cells, same background, a different history; 2 = a clone of a matrix
    /// that was asked before; 3 = `ScoreDistribution::from(&matrix)`
    #[serde(default)]
    pub route: u8,
}

pub struct Dist;

/// The matrix of the case as an object with a history (see `Case::route`).
fn matrix_with_history<A: Alphabet>(case: &Case) -> ScoringMatrix<A> {
    let direct: ScoringMatrix<A> = build_pssm::<A>(&case.mat);
    match case.route {
        1 if case.abc == Abc::Dna => {
            const COMP: [usize; 5] = [2, 3, 0, 1, 4];
            let rows: Vec<Vec<Fl>> = case.mat.rows.iter().rev().map(|r| (0..5).map(|j| r[COMP[j]]).collect()).collect();
            let mirror = build_pssm::<lightmotif::abc::Dna>(&MatSpec { rows, bg: case.mat.bg.clone(), regime: case.mat.regime.clone() });
            let _ = mirror.to_score_distribution();
            let back = mirror.reverse_complement();
            // same cells and background as the direct matrix (the alphabet is DNA here: rebuild it in the generic type)
            let same = (0..case.mat.m()).all(|i| (0..5).all(|j| back.matrix()[i][j].to_bits() == direct.matrix()[i][j].to_bits()));
            assert!(same, "harness: rc(mirror) must reproduce the cells");
            // hand the object over under the generic alphabet type
            let any: Box<dyn std::any::Any> = Box::new(back);
            match any.downcast::<ScoringMatrix<A>>() {
                Ok(b) => *b,
                Err(_) => direct,
            }
        }
        2 => {
            let _ = direct.to_score_distribution();
            direct.clone()
        }
        _ => direct,
    }
}

pub fn exact_limit(abc: Abc, tier: Tier) -> usize {
    match abc {
        Abc::Dna => tier.pick(8, 16),
        Abc::Protein => tier.pick(3, 4),
    }
}

fn strategy(tier: Tier) -> BoxedStrategy<Case> {
    prop_oneof![4 => Just(Abc::Dna), 1 => Just(Abc::Protein)]
        .prop_flat_map(move |abc| {
            let k = abc.k();
            let lim = exact_limit(abc, tier);
            // widths: mostly enumerable, some larger for the structural parts
            let width = prop_oneof![8 => 1usize..=lim, 2 => (lim + 1)..=30usize].boxed();
            let mat = width.prop_flat_map(move |m| {
                let lib = mat_strategy(abc, Just(m).boxed(), Regimes { library: true, finite: false, neginf: false, small_int: false, near_tie: false });
                // arbitrary finite cells, any background (zero entries, non-zero wildcard)
                let fin = (proptest::collection::vec(proptest::collection::vec(prop_oneof![4 => -32.0f32..=32.0, 1 => (-8i32..=8).prop_map(|x| x as f32)], k), m), bg_strategy(k, true, true), any::<bool>(), any::<bool>())
                    .prop_map(move |(rows, bg, equal_row, wild_inf)| {
                        let mut rows: Vec<Vec<Fl>> = rows.into_iter().map(|r| r.into_iter().map(Fl).collect()).collect();
                        if equal_row && !rows.is_empty() {
                            let v = rows[0][0];
                            for x in rows[0].iter_mut() {
                                *x = v;
                            }
                        }
                        if wild_inf {
                            for r in rows.iter_mut() {
                                r[k - 1] = Fl(f32::NEG_INFINITY);
                            }
                        }
                        MatSpec { rows, bg, regime: "finite".into() }
                    });
                // every cell equal: the `small == large` branch
                let flat = (-8i32..=8, bg_strategy(k, false, false)).prop_map(move |(v, bg)| MatSpec { rows: vec![vec![Fl(v as f32); k]; m], bg, regime: "all-equal".into() });
                // every finite cell inside a short interval away from zero: the cell range is shorter than one
                // unit (or a few), all cells have one sign, the smallest cell is not an integer
                let narrow = (
                    -12.0f32..=12.0,
                    prop_oneof![Just(0.05f32), Just(0.3f32), Just(0.9f32), Just(2.5f32)],
                    proptest::collection::vec(proptest::collection::vec(0.0f32..1.0, k), m),
                    bg_strategy(k, true, true),
                    any::<bool>(),
                )
                    .prop_map(move |(base, span, rows, bg, wild_inf)| {
                        let mut rows: Vec<Vec<Fl>> = rows.into_iter().map(|r| r.into_iter().map(|u| Fl(base + span * u)).collect()).collect();
                        if wild_inf {
                            for r in rows.iter_mut() {
                                r[k - 1] = Fl(f32::NEG_INFINITY);
                            }
                        }
                        MatSpec { rows, bg, regime: "narrow-range".into() }
                    });
                prop_oneof![4 => lib, 5 => fin, 1 => flat, 2 => narrow]
            });
            let q = prop_oneof![
                4 => any::<usize>().prop_map(Query::Attainable),
                3 => any::<usize>().prop_map(Query::Mid),
                1 => Just(Query::BelowMin),
                1 => Just(Query::AboveMax),
                2 => (-200.0f32..200.0).prop_map(|v| Query::Value(Fl(v))),
            ];
            (Just(abc), mat, proptest::collection::vec(q, 8..=20), proptest::collection::vec((1u16..=999, 0u8..=9), 0..=8), prop_oneof![3 => Just(0u8), 3 => Just(1u8), 1 => Just(2u8), 1 => Just(3u8)])
        })
        .prop_map(|(abc, mat, queries, pvalues, route)| Case { abc, mat, queries, pvalues, route })
        .boxed()
}

fn run<A: Alphabet>(case: &Case, tier_limit: usize, info: &mut CaseInfo) -> Option<Failure> {
    let k = case.abc.k();
    let cells = case.mat.cells();
    let m = cells.len();
    let pssm: ScoringMatrix<A> = matrix_with_history::<A>(case);
    let dist = if case.route == 3 { lightmotif::pwm::dist::ScoreDistribution::from(&pssm) } else { pssm.to_score_distribution() };
    info.class_if(case.route == 1 && case.abc == Abc::Dna, "matrix=rc(mirror)-after-the-mirror's-distribution");
    let sf = dist.sf();
    // --- structural: values in [0,1], non-increasing
    for (i, &v) in sf.iter().enumerate() {
        info.comparisons += 1;
        if !(v >= 0.0 && v <= 1.0) {
            return Some(Failure::new("sf:range", format!("sf[{}] = {} outside [0,1]", i, v)));
        }
        if i > 0 && v > sf[i - 1] {
            return Some(Failure::new("sf:monotone", format!("sf[{}] = {} > sf[{}] = {}", i, v, i - 1, sf[i - 1])));
        }
    }
    // --- discretisation step from the documented definition
    let finite: Vec<f64> = cells.iter().flatten().filter(|x| x.is_finite()).map(|&x| x as f64).collect();
    let large = finite.iter().cloned().fold(f64::NEG_INFINITY, f64::max);
    let mut small = finite.iter().cloned().fold(f64::INFINITY, f64::min);
    if small == large {
        small = large - 1.0;
    }
    let scale = (1000.0 / (large - small.floor())).floor();
    if !(scale >= 1.0) {
        return None; // outside the stated assumption (cell range > 1000)
    }
    let step = 1.0 / scale;
    let d = ((m as f64) / 2.0 + 1.0) * step;
    // --- exact tail
    let bg: Vec<f64> = pssm.background().frequencies().iter().map(|&x| x as f64).collect();
    let exact = m <= tier_limit;
    info.class_if(!exact, "structural-only(width beyond enumeration)");
    let tail = if exact { Some(Tail::new(&cells, &bg)) } else { None };
    // beyond enumeration the UPPER tail is still exact: a depth-first walk over the words that can reach a score
    // near the maximum (capped; a query whose walk exceeds the cap is left to the structural checks)
    let upper = if exact { None } else { Some(UpperTail::new(&cells, &bg)) };
    const UPPER_CAP: u64 = 300_000;
    let mass_excess = bg.iter().sum::<f64>().powi(m as i32) - 1.0;
    // --- queries
    let mut scores: Vec<f32> = Vec::new();
    if let Some(t) = &tail {
        let picks: Vec<usize> = case
            .queries
            .iter()
            .filter_map(|q| match q {
                Query::Attainable(i) | Query::Mid(i) => Some(*i),
                _ => None,
            })
            .collect();
        let att = t.some_scores(&picks);
        let mut ai = 0;
        for q in &case.queries {
            match q {
                Query::Attainable(_) => {
                    if ai < att.len() {
                        scores.push(att[ai] as f32);
                    }
                    ai += 1;
                }
                Query::Mid(_) => {
                    if ai < att.len() {
                        let v = att[ai];
                        let next = t.largest_below(f64::INFINITY).unwrap_or(v);
                        // midpoint towards the largest attainable score below v, if any
                        let below = t.largest_below(v - 1e-9).unwrap_or(v - 1.0);
                        let _ = next;
                        scores.push(((v + below) / 2.0) as f32);
                    }
                    ai += 1;
                }
                Query::BelowMin => scores.push((t.min - 1.0 - d) as f32),
                Query::AboveMax => scores.push((t.max + 1.0 + d) as f32),
                Query::Value(v) => scores.push(v.0),
            }
        }
    } else {
        for q in &case.queries {
            if let Query::Value(v) = q {
                scores.push(v.0);
            }
        }
        scores.push(pssm.min_score() - 1.0);
        scores.push(pssm.max_score() + 1.0);
        scores.push((pssm.min_score() + pssm.max_score()) / 2.0);
        if let Some(ut) = &upper {
            if ut.max.is_finite() {
                for off in [0.0, d, 2.5 * d, 0.75, 2.0, 4.5, 8.0] {
                    scores.push((ut.max - off) as f32);
                }
            }
        }
    }
    // scores far outside any attainable range, up to the ends of f32 (the score argument has no bound)
    for q in &case.queries {
        if let Query::Value(v) = q {
            let i = (v.0.abs() as usize) % 8;
            if i < 6 {
                scores.push([1e7f32, -1e7, 3e9, -3e9, f32::MAX, f32::MIN][i]);
                info.class("query-at-extreme-score(|s|>=1e7)");
            }
        }
    }
    scores.retain(|s| s.is_finite());
    scores.sort_by(|a, b| a.partial_cmp(b).unwrap());
    let mut prev: Option<(f32, f64)> = None;
    let mut inside = 0;
    for &s in &scores {
        let p = dist.pvalue(s);
        info.comparisons += 1;
        if !(0.0..=1.0).contains(&p) {
            return Some(Failure::new("pvalue:range", format!("pvalue({}) = {}", s, p)));
        }
        if let Some((ps, pp)) = prev {
            if p > pp + 1e-15 {
                return Some(Failure::new("pvalue:monotone", format!("pvalue({}) = {} > pvalue({}) = {}", s, p, ps, pp)));
            }
        }
        prev = Some((s, p));
        if let Some(t) = &tail {
            let lo = t.ge(s as f64 + d + 1e-9);
            let hi = t.ge(s as f64 - d - 1e-9);
            // relative, so that tails of 1e-20 are held to the same standard as tails of 0.1 (the only absolute
            // term is the excess of an f32 background's total mass over one, which the table clips away)
            let tau = |v: f64| 1e-9 * v + mass_excess.max(0.0);
            if p < lo - tau(lo) {
                return Some(Failure::new(
                    "pvalue:below-exact-tail",
                    format!("pvalue({}) = {:e} < P(S >= s+d) = {:e} (d = {} = (M/2+1) steps of {}, M={})", s, p, lo, d, step, m),
                ));
            }
            if p > hi + tau(hi) {
                return Some(Failure::new(
                    "pvalue:above-exact-tail",
                    format!("pvalue({}) = {:e} > P(S >= s-d) = {:e} (d = {} = (M/2+1) steps of {}, M={})", s, p, hi, d, step, m),
                ));
            }
            if (s as f64) > t.min && (s as f64) < t.max {
                inside += 1;
            }
        } else if let Some(ut) = &upper {
            let tau = |v: f64| 1e-9 * v + mass_excess.max(0.0);
            if let Some(lo) = ut.ge(s as f64 + d + 1e-9, UPPER_CAP) {
                if p < lo - tau(lo) {
                    return Some(Failure::new(
                        "pvalue:below-exact-tail",
                        format!("pvalue({}) = {:e} < P(S >= s+d) = {:e} (exact upper tail; d = {}, M={})", s, p, lo, d, m),
                    ));
                }
            }
            if let Some(hi) = ut.ge(s as f64 - d - 1e-9, UPPER_CAP) {
                info.class("wide-matrix-query-checked-against-the-exact-upper-tail");
                if p > hi + tau(hi) {
                    return Some(Failure::new(
                        "pvalue:above-exact-tail",
                        format!("pvalue({}) = {:e} > P(S >= s-d) = {:e} (exact upper tail; d = {}, M={})", s, p, hi, d, m),
                    ));
                }
            }
        }
    }
    // --- p-value -> score -> p-value never increases
    let mut ps: Vec<f64> = case.pvalues.iter().map(|&(mant, e)| mant as f64 / 1000.0 * 10f64.powi(-(e as i32))).collect();
    if let Some(t) = &tail {
        // exact attainable tail probabilities too
        for &s in scores.iter().take(4) {
            let p = t.ge(s as f64);
            if p > 0.0 && p < 1.0 {
                ps.push(p);
            }
        }
    }
    for &p in &ps {
        let s = dist.score(p);
        let back = dist.pvalue(s);
        info.comparisons += 1;
        if back > p + 1e-12 {
            return Some(Failure::new("score:roundtrip", format!("pvalue(score({:e})) = {:e} is larger (score {})", p, back, s)));
        }
    }
    let mp = dist.min_pvalue();
    if !(0.0..=1.0).contains(&mp) {
        return Some(Failure::new("min_pvalue:range", format!("min_pvalue() = {}", mp)));
    }
    let distinct = tail.as_ref().map(|t| t.distinct_scores(4)).unwrap_or(0);
    info.nontrivial = exact && m >= 2 && distinct >= 3 && inside > 0;
    info.class_if(bg[..k - 1].iter().any(|&x| x == 0.0), "zero-frequency-symbol");
    info.class_if(bg[k - 1] > 0.0, "non-zero-wildcard-frequency");
    let u = bg[0];
    info.class_if(bg[..k - 1].iter().any(|&x| (x - u).abs() > 1e-6), "non-uniform-background");
    info.class_if(case.queries.iter().any(|q| matches!(q, Query::Attainable(_))), "query-at-attainable-score");
    info.class_if(mass_excess > 0.0, "background-mass>1");
    info.class_if(large - small.floor() < 1.0 && small != small.floor(), "all-cells-within-one-unit-interval");
    info.class_if(small > 0.0 || large < 0.0, "all-cells-of-one-sign");
    None
}

impl Sub for Dist {
    type Case = Case;
    fn name(&self) -> &'static str {
        "meme-dist"
    }
    fn rule(&self) -> &'static str {
        "DNA width 1..8 (quick) / ..16 (thorough, meet-in-the-middle), protein 1..3 / ..4, plus wider matrices (to 30 columns; two in ten) for the structural parts and for queries within a few units of the maximum, where the exact upper tail is still computable by a pruned depth-first walk; library-made and arbitrary finite cells (|cell| <= 32, rows of equal cells, finite or -inf wildcard column; also cells confined to a short interval base + [0, 0.05..2.5) away from zero, so that all cells have one sign and may share one unit interval) x uniform / non-uniform / zero-entry / non-zero-wildcard backgrounds; the matrix object built directly, or (DNA, 3 in 8) obtained as the reverse complement of its mirror image after the mirror image was asked for its own distribution, or cloned from a matrix asked before, the table through to_score_distribution() or ScoreDistribution::from; 8..20 queries per matrix (attainable scores, midpoints, below min, above max, arbitrary, and scores of magnitude 1e7 .. f32::MAX) and up to 12 p-values; oracle: sf in [0,1] non-increasing, P(S>=s+d) <= pvalue(s) <= P(S>=s-d) against the exact enumeration with d=(M/2+1)/scale, pvalue monotone, pvalue(score(p)) <= p; non-trivial = exact oracle available, M >= 2, >= 3 distinct attainable scores and a query strictly inside (min, max)"
    }
    fn cases(&self, tier: Tier) -> u64 {
        tier.pick(10_000, 300_000)
    }
    fn strategy(&self, tier: Tier) -> BoxedStrategy<Case> {
        strategy(tier)
    }
    fn check(&self, case: &Case, _cx: &Cx) -> Verdict {
        if case.mat.m() == 0 {
            return Verdict::Pass(CaseInfo::new());
        }
        let mut info = CaseInfo::new();
        info.class_if(case.abc == Abc::Dna, "dna");
        info.class_if(case.abc == Abc::Protein, "protein");
        // replay must not depend on the tier: the limit is the larger (thorough) one,
        // generation keeps quick cases small
        let lim = exact_limit(case.abc, Tier::Thorough);
        let f = with_abc!(case.abc, A => run::<A>(case, lim, &mut info));
        match f {
            Some(f) => Verdict::Fail(f),
            None => Verdict::Pass(info),
        }
    }
}

pub fn property() -> Property {
    Property {
        id: "C11",
        subs: vec![Box::new(Dist)],
        assumptions: vec![
            "cells lie in [-32, 32] so that the documented integer range 1000 gives a scale >= 1 (a matrix whose finite cell range exceeds 1000 is outside the documented regime and skipped)",
            "matrices have finite non-wildcard entries; the wildcard column is finite or -inf",
            "the exact tail is taken over all K symbols with the matrix's own background (f32 values widened to f64); probabilities are compared with tau = 1e-9*value + 1e-12 + max(0, (sum bg)^M - 1) because the table is clipped at 1 while an f32 background may carry slightly more than unit mass",
            "oracle comparisons on scores are widened by 1e-9 in the direction that weakens the bound",
        ],
    }
}
