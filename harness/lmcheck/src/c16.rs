//! C16 — Gibbs sampler state always equals a recomputation from its alignment.

use lightmotif::abc::{Alphabet, Symbol};
use lightmotif::num::U32;
use lightmotif::pli::{Pipeline, Score, Stripe};
use lightmotif::sampler::{Sampler, SamplerBuilder, SamplerData, SamplerMode};
use lightmotif::seq::StripedSequence;
use proptest::prelude::*;
use rand::rngs::StdRng;
use rand::SeedableRng;
use serde::{Deserialize, Serialize};

use crate::engine::*;
use crate::gen::*;

#[derive(Clone, Debug, Serialize, Deserialize)]
pub enum Mode {
    Oops,
    Zoops { seeds: usize, inertia: Option<usize>, patience: Option<usize> },
}

#[derive(Clone, Debug, Serialize, Deserialize)]
pub struct Case {
    pub abc: Abc,
    pub width: usize,
    /// sequences as symbol indices; each longer than `width`
    pub seqs: Vec<SeqSpec>,
    pub extra_wrap: usize,
    pub mode: Mode,
    pub rng_seed: u64,
    pub steps: usize,
    pub arm: Arm,
    /// the sequences of the dataset are not striped from text but built through `StripedSequence::new`
    /// from hand-filled matrices whose unused cells hold arbitrary symbols (as `StripedSequence::sample`
    /// leaves them)
    #[serde(default)]
    pub via_new: bool,
    /// (sequence, start, length): runs overwritten with the wildcard after expansion, each at least `width` long -
    /// masked regions (repeats, low complexity), so that whole windows consist of wildcards
    #[serde(default)]
    pub masked: Vec<(usize, usize, usize)>,
    /// `SamplerBuilder::temperature`, when set (the sampler is then built through the builder in Oops mode too)
    #[serde(default)]
    pub temperature: Option<Fl>,
    /// (seed, percent): one word of `width` symbols (from the seed, no wildcard) is written into every sequence at
    /// a seed-derived place, each of its symbols replaced by another one with the given probability - a
    /// conserved site, as in real data, so that windows reach scores of many bits per position
    #[serde(default)]
    pub planted: Option<(u64, u8)>,
}

pub struct Trace;

#[derive(PartialEq, Debug, Clone)]
struct StepRecord {
    z: usize,
    step: usize,
    counts: Vec<u32>,
    pssm_bits: Vec<u32>,
    active: Vec<usize>,
    starts: Vec<usize>,
}

fn recount(seqs: &[Vec<u8>], active: &[usize], starts: &[usize], width: usize, k: usize) -> (Vec<u32>, Vec<usize>) {
    let mut motif = vec![0u32; width * k];
    let mut bg = vec![0usize; k];
    for (a, &i) in active.iter().enumerate() {
        let s = &seqs[i];
        for &x in s.iter() {
            bg[x as usize] += 1;
        }
        for j in 0..width {
            let x = s[starts[a] + j] as usize;
            motif[j * k + x] += 1;
            bg[x] -= 1;
        }
    }
    (motif, bg)
}

fn run<A: Alphabet>(case: &Case, info: &mut CaseInfo) -> Result<Vec<StepRecord>, Failure>
where
    Pipeline<A, lightmotif::pli::dispatch::Dispatch>: Score<f32, A, U32>,
{
    let k = case.abc.k();
    let width = case.width;
    let mut seqs: Vec<Vec<u8>> = case.seqs.iter().map(|s| s.expand(k)).collect();
    for &(i, start, len) in &case.masked {
        if !seqs.is_empty() {
            let s = &mut seqs[i % case.seqs.len()];
            let start = start % s.len();
            let end = (start + len).min(s.len());
            for x in s[start..end].iter_mut() {
                *x = (k - 1) as u8;
            }
        }
    }
    if let Some((seed, pct)) = case.planted {
        let mut st = seed;
        let word: Vec<u8> = (0..width).map(|_| { st = splitmix64(st); (st >> 20) as u8 % (k as u8 - 1) }).collect();
        for s in seqs.iter_mut() {
            st = splitmix64(st);
            let at = (st >> 16) as usize % (s.len() - width + 1);
            for j in 0..width {
                st = splitmix64(st);
                let keep = (st >> 24) % 100 >= pct as u64;
                s[at + j] = if keep { word[j] } else { ((st >> 40) as u8) % (k as u8 - 1) };
            }
        }
    }
    let seqs = seqs;
    let striped: Vec<StripedSequence<A, U32>> = seqs
        .iter()
        .map(|s| {
            let mut st: StripedSequence<A, U32> = if case.via_new { striped_via_new::<A, U32>(s, 0, s.len() as u64 * 31 + 7) } else { Pipeline::<A, _>::generic().stripe(&syms::<A>(s)) };
            st.configure_wrap(width + case.extra_wrap);
            st
        })
        .collect();
    let data = SamplerData::new(&striped);
    let _g = case.arm.force();
    let rng = StdRng::seed_from_u64(case.rng_seed);
    let mut sampler: Sampler<'_, StdRng, A, &Vec<StripedSequence<A, U32>>, U32> = match &case.mode {
        Mode::Oops => match case.temperature {
            None => Sampler::new(&data, width, rng),
            Some(t) => {
                let mut b = SamplerBuilder::new(&data);
                b.width(width).mode(SamplerMode::Oops).temperature(t.0 as f64);
                b.sample(rng)
            }
        },
        Mode::Zoops { seeds, inertia, patience } => {
            let mut b = SamplerBuilder::new(&data);
            b.width(width).mode(SamplerMode::Zoops).seeds(*seeds);
            if let Some(t) = case.temperature {
                b.temperature(t.0 as f64);
            }
            if let Some(i) = inertia {
                b.inertia(*i);
            }
            if let Some(p) = patience {
                b.patience(*p);
            }
            b.sample(rng)
        }
    };

    let n = seqs.len();
    let state_check = |s: &Sampler<'_, StdRng, A, &Vec<StripedSequence<A, U32>>, U32>, at: &str, info: &mut CaseInfo| -> Result<(Vec<usize>, Vec<usize>), Failure> {
        let active = s.active_sequences();
        let starts = s.active_starts();
        if active.len() != starts.len() || active.iter().any(|&i| i >= n) || active.windows(2).any(|w| w[0] >= w[1]) {
            return Err(Failure::new("sampler:active", format!("{}: inconsistent active set {:?} / starts {:?}", at, active, starts)));
        }
        for (a, &i) in active.iter().enumerate() {
            if starts[a] + width > seqs[i].len() {
                return Err(Failure::new("sampler:window", format!("{}: sequence {} (length {}) has start {} with width {}", at, i, seqs[i].len(), starts[a], width)));
            }
        }
        let (motif, bg) = recount(&seqs, &active, &starts, width, k);
        let cm = s.count_matrix();
        info.comparisons += (width * k) as u64;
        if cm.len() != width {
            return Err(Failure::new("sampler:count-matrix", format!("{}: count matrix has {} rows", at, cm.len())));
        }
        for j in 0..width {
            for x in 0..k {
                if cm.matrix()[j][x] != motif[j * k + x] {
                    return Err(Failure::new(
                        "sampler:count-matrix",
                        format!("{}: count_matrix()[{}][{}] = {} but the windows at the reported starts give {}", at, j, x, cm.matrix()[j][x], motif[j * k + x]),
                    ));
                }
            }
        }
        if cm.sequence_count() != active.len() {
            return Err(Failure::new("sampler:sequence-count", format!("{}: sequence_count {} != {} active", at, cm.sequence_count(), active.len())));
        }
        let total: usize = bg.iter().sum();
        if total > 0 {
            let b = s.background();
            for x in 0..k {
                let want = bg[x] as f32 / total as f32;
                if b.frequencies()[x] != want {
                    return Err(Failure::new(
                        "sampler:background",
                        format!("{}: background[{}] = {} but the symbols outside the windows give {}/{} = {}", at, x, b.frequencies()[x], bg[x], total, want),
                    ));
                }
            }
        }
        Ok((active, starts))
    };

    let mut trace = Vec::new();
    let (mut prev_active, mut prev_starts) = state_check(&sampler, "after construction", info)?;
    let mut changed_start = false;
    let mut inclusion = false;
    for t in 0..case.steps {
        let Some(it) = sampler.next() else {
            info.class("converged-early");
            // a converged sampler stays converged and keeps a consistent state
            if sampler.next().is_some() {
                return Err(Failure::new("sampler:not-fused", format!("step {}: next() returned an iteration after None", t)));
            }
            state_check(&sampler, "after convergence", info)?;
            break;
        };
        let at = format!("step {}", t);
        if it.step != t {
            return Err(Failure::new("sampler:step", format!("{}: iteration reports step {}", at, it.step)));
        }
        if it.z >= n {
            return Err(Failure::new("sampler:z", format!("{}: held-out index {} >= {}", at, it.z, n)));
        }
        // counts reported with the iteration: alignment before the step without z
        let mut a2 = Vec::new();
        let mut s2 = Vec::new();
        for (a, &i) in prev_active.iter().enumerate() {
            if i != it.z {
                a2.push(i);
                s2.push(prev_starts[a]);
            }
        }
        let (motif, _) = recount(&seqs, &a2, &s2, width, k);
        for j in 0..width {
            for x in 0..k {
                if it.counts.matrix()[j][x] != motif[j * k + x] {
                    return Err(Failure::new(
                        "sampler:iteration-counts",
                        format!("{}: Iteration.counts[{}][{}] = {} but the alignment without z={} gives {}", at, j, x, it.counts.matrix()[j][x], it.z, motif[j * k + x]),
                    ));
                }
            }
        }
        if it.counts.sequence_count() != a2.len() {
            return Err(Failure::new("sampler:iteration-counts", format!("{}: Iteration.counts.sequence_count {} != {}", at, it.counts.sequence_count(), a2.len())));
        }
        let (active, starts) = state_check(&sampler, &at, info)?;
        if active.len() > prev_active.len() {
            inclusion = true;
        }
        for (a, &i) in active.iter().enumerate() {
            if let Some(p) = prev_active.iter().position(|&q| q == i) {
                if prev_starts[p] != starts[a] {
                    changed_start = true;
                }
            }
        }
        trace.push(StepRecord {
            z: it.z,
            step: it.step,
            counts: (0..width).flat_map(|j| it.counts.matrix()[j].to_vec()).collect(),
            pssm_bits: (0..width).flat_map(|j| it.pssm.matrix()[j].iter().map(|x| x.to_bits()).collect::<Vec<_>>()).collect(),
            active: active.clone(),
            starts: starts.clone(),
        });
        prev_active = active;
        prev_starts = starts;
    }
    info.nontrivial = trace.len() >= 50 && changed_start && (matches!(case.mode, Mode::Oops) || inclusion);
    info.class_if(changed_start, "start-changed");
    info.class_if(inclusion, "zoops-inclusion");
    Ok(trace)
}

impl Sub for Trace {
    type Case = Case;
    fn name(&self) -> &'static str {
        "trace"
    }
    fn rule(&self) -> &'static str {
        "DNA / protein dataset of 2..12 sequences (lengths width+1..~120, occasional wildcards, and in a third of the datasets masked regions - wildcard runs of width..width+40 symbols - in some of the sequences; striped from text or, 1 in 4, built through StripedSequence::new with arbitrary symbols in the unused cells, as StripedSequence::sample leaves them) x width 1..20 (one in seven 21..100) x a conserved site planted in every sequence (a third of the datasets; 0 / 3 / 10 / 25 % of its symbols changed per sequence) x mode Oops or Zoops (seeds 2..n, inertia, patience) x SamplerBuilder::temperature unset or one of {0, 0.25, 0.5, 1, 2, 10} x StdRng seed x 1..300 steps x forced dispatcher arm; after construction and after EVERY step count_matrix, background, starts and Iteration.counts are recomputed from the reported alignment; the whole run is repeated and the two traces (z, counts, pssm bits, active set, starts) must be identical; non-trivial = >= 50 steps with a changed start (and an inclusion in Zoops)"
    }
    fn cases(&self, tier: Tier) -> u64 {
        tier.pick(8_000, 200_000)
    }
    fn strategy(&self, _tier: Tier) -> BoxedStrategy<Case> {
        (abc_strategy(), prop_oneof![6 => 1usize..=20, 1 => 21usize..=100], 2usize..=12)
            .prop_flat_map(|(abc, width, n)| {
                let k = abc.k();
                let seq = (width + 1..=width + 100).prop_flat_map(move |len| {
                    prop_oneof![
                        1 => proptest::collection::vec(symbol_strategy(k), len).prop_map(SeqSpec::Explicit),
                        3 => (any::<u64>(), prop_oneof![3 => Just(0u8), 1 => Just(3u8)]).prop_map(move |(seed, wild_pct)| SeqSpec::Seeded { len, seed, wild_pct }),
                    ]
                });
                let mode = prop_oneof![
                    1 => Just(Mode::Oops),
                    1 => (2usize..=n, proptest::option::of(0usize..=60), proptest::option::of(0usize..=40)).prop_map(|(seeds, inertia, patience)| Mode::Zoops { seeds, inertia, patience }),
                ];
                (
                    Just(abc),
                    Just(width),
                    proptest::collection::vec(seq, n),
                    prop_oneof![2 => Just(0usize), 1 => 0usize..=20],
                    mode,
                    any::<u64>(),
                    prop_oneof![1 => 1usize..=20, 3 => 50usize..=300],
                    (
                        arm_strategy(),
                        prop_oneof![3 => Just(false), 1 => Just(true)],
                        prop_oneof![2 => Just(Vec::new()), 1 => proptest::collection::vec((0usize..n, any::<usize>(), width..=width + 40), 1..=n)],
                        prop_oneof![3 => Just(None), 2 => proptest::sample::select(vec![0.0f32, 0.25, 0.5, 1.0, 2.0, 10.0]).prop_map(|t| Some(Fl(t)))],
                        prop_oneof![2 => Just(None), 1 => (any::<u64>(), prop_oneof![Just(0u8), Just(3u8), Just(10u8), Just(25u8)]).prop_map(Some)],
                    ),
                )
            })
            .prop_map(|(abc, width, seqs, extra_wrap, mode, rng_seed, steps, (arm, via_new, masked, temperature, planted))| Case { abc, width, seqs, extra_wrap, mode, rng_seed, steps, arm, via_new, masked, temperature, planted })
            .boxed()
    }
    fn check(&self, case: &Case, _cx: &Cx) -> Verdict {
        let mut info = CaseInfo::new();
        info.class_if(case.abc == Abc::Protein, "protein");
        info.class_if(case.abc == Abc::Dna, "dna");
        info.class(match case.mode {
            Mode::Oops => "oops",
            Mode::Zoops { .. } => "zoops",
        });
        info.class(case.arm.name());
        info.class_if(case.via_new, "dataset-built-by-StripedSequence::new(arbitrary-padding)");
        info.class_if(!case.masked.is_empty(), "masked-regions(wildcard-runs>=width)");
        info.class_if(case.temperature.is_some(), "temperature-set-through-the-builder");
        info.class_if(case.planted.is_some(), "conserved-site-planted-in-every-sequence");
        info.class_if(case.width > 20, "width-21..100");
        info.class_if(case.planted.is_some() && case.width >= 64, "conserved-site-of-64-or-more-positions");
        info.class_if(case.temperature.map_or(false, |t| t.0 == 0.0), "temperature=0");
        let r = with_abc!(case.abc, A => {
            match run::<A>(case, &mut info) {
                Err(f) => Err(f),
                Ok(t1) => {
                    let mut scratch = CaseInfo::new();
                    match run::<A>(case, &mut scratch) {
                        Err(f) => Err(f),
                        Ok(t2) => {
                            if t1 != t2 {
                                let at = t1.iter().zip(t2.iter()).position(|(a, b)| a != b).unwrap_or(t1.len().min(t2.len()));
                                Err(Failure::new("sampler:determinism", format!("two runs with equal data, parameters and seed diverge at step {}", at)))
                            } else { Ok(()) }
                        }
                    }
                }
            }
        });
        match r {
            Err(f) => Verdict::Fail(f),
            Ok(()) => Verdict::Pass(info),
        }
    }
}

#[allow(dead_code)]
fn _unused<S: Symbol>(_: S) {}

pub fn property() -> Property {
    Property {
        id: "C16",
        subs: vec![Box::new(Trace)],
        assumptions: vec![
            "every sequence is longer than the width and has wrap rows >= width configured (the constructor's stated precondition)",
            "Zoops uses >= 2 seed sequences: with fewer the constructor's own hold-out leaves an empty alignment, outside the property's dataset domain",
            "the background is compared exactly: the check performs the same f32 division count/total",
            "randomness comes from rand::rngs::StdRng seeded with a generated u64",
        ],
    }
}
