//! Generators and case building blocks shared by several properties.
//!
//! Everything random is a proptest strategy (or a pure function of values drawn
//! from one), so that shrinking and replay work; cases are plain serde data.

use generic_array::GenericArray;
use lightmotif::abc::{Alphabet, Background, Dna, Protein};
use lightmotif::dense::DenseMatrix;
use lightmotif::pli::dispatch::Dispatch;
use lightmotif::pwm::{CountMatrix, ScoringMatrix};
use proptest::prelude::*;
use proptest::strategy::BoxedStrategy;
use serde::{Deserialize, Deserializer, Serialize, Serializer};

use crate::engine::{splitmix64, Tier};

// --- f32 with exact, JSON-safe serialisation ---------------------------------

/// An `f32` that serialises finite values as numbers and the others as strings.
#[derive(Clone, Copy, Debug, PartialEq)]
pub struct Fl(pub f32);

impl Serialize for Fl {
    fn serialize<S: Serializer>(&self, s: S) -> Result<S::Ok, S::Error> {
        if self.0.is_finite() {
            s.serialize_f32(self.0)
        } else if self.0.is_nan() {
            s.serialize_str("nan")
        } else if self.0 > 0.0 {
            s.serialize_str("inf")
        } else {
            s.serialize_str("-inf")
        }
    }
}

impl<'de> Deserialize<'de> for Fl {
    fn deserialize<D: Deserializer<'de>>(d: D) -> Result<Self, D::Error> {
        let v = serde_json::Value::deserialize(d)?;
        match &v {
            serde_json::Value::Number(n) => Ok(Fl(n.as_f64().unwrap_or(f64::NAN) as f32)),
            serde_json::Value::String(s) => match s.as_str() {
                "inf" => Ok(Fl(f32::INFINITY)),
                "-inf" => Ok(Fl(f32::NEG_INFINITY)),
                "nan" => Ok(Fl(f32::NAN)),
                other => other.parse::<f32>().map(Fl).map_err(serde::de::Error::custom),
            },
            _ => Err(serde::de::Error::custom("expected a number or inf/-inf/nan")),
        }
    }
}

// --- alphabets ---------------------------------------------------------------

#[derive(Clone, Copy, Debug, PartialEq, Eq, Serialize, Deserialize)]
pub enum Abc {
    Dna,
    Protein,
}

impl Abc {
    pub fn k(self) -> usize {
        match self {
            Abc::Dna => 5,
            Abc::Protein => 21,
        }
    }
    pub fn letters(self) -> &'static [u8] {
        match self {
            Abc::Dna => Dna::as_str().as_bytes(),
            Abc::Protein => Protein::as_str().as_bytes(),
        }
    }
}

pub fn abc_strategy() -> BoxedStrategy<Abc> {
    prop_oneof![3 => Just(Abc::Dna), 2 => Just(Abc::Protein)].boxed()
}

/// Run `$body` with the type alias `$A` bound to the alphabet selected at run time.
#[macro_export]
macro_rules! with_abc {
    ($abc:expr, $A:ident => $body:expr) => {
        match $abc {
            $crate::gen::Abc::Dna => {
                type $A = lightmotif::abc::Dna;
                $body
            }
            $crate::gen::Abc::Protein => {
                type $A = lightmotif::abc::Protein;
                $body
            }
        }
    };
}

pub fn syms<A: Alphabet>(idx: &[u8]) -> Vec<A::Symbol> {
    let all = A::symbols();
    idx.iter().map(|&i| all[i as usize]).collect()
}

pub fn text_of(abc: Abc, idx: &[u8]) -> Vec<u8> {
    let l = abc.letters();
    idx.iter().map(|&i| l[i as usize]).collect()
}

// --- dispatcher arms ---------------------------------------------------------

#[derive(Clone, Copy, Debug, PartialEq, Eq, Serialize, Deserialize)]
pub enum Arm {
    Generic,
    Sse2,
    Avx2,
}

pub const ARMS: [Arm; 3] = [Arm::Generic, Arm::Sse2, Arm::Avx2];

impl Arm {
    pub fn name(self) -> &'static str {
        match self {
            Arm::Generic => "arm:generic",
            Arm::Sse2 => "arm:sse2",
            Arm::Avx2 => "arm:avx2",
        }
    }
    pub fn force(self) -> ArmGuard {
        let d = match self {
            Arm::Generic => Dispatch::Generic,
            Arm::Sse2 => Dispatch::Sse2,
            Arm::Avx2 => Dispatch::Avx2,
        };
        lightmotif::pli::verif_hooks::force_backend(Some(d));
        ArmGuard
    }
}

pub fn arm_strategy() -> BoxedStrategy<Arm> {
    prop_oneof![Just(Arm::Generic), Just(Arm::Sse2), Just(Arm::Avx2)].boxed()
}

/// Restores runtime detection when dropped.
pub struct ArmGuard;
impl Drop for ArmGuard {
    fn drop(&mut self) {
        lightmotif::pli::verif_hooks::force_backend(None);
    }
}

// --- lengths -----------------------------------------------------------------

/// Boundary-biased sequence lengths (never uniform).
pub fn len_strategy(tier: Tier) -> BoxedStrategy<usize> {
    let around = |c: usize, r: usize| (c.saturating_sub(r)..=c + r).boxed();
    let mut alts: Vec<(u32, BoxedStrategy<usize>)> = vec![
        (2, (0usize..=2).boxed()),
        (8, (0usize..=70).boxed()),
        (4, (1usize..=12, 0usize..=4, prop_oneof![Just(16usize), Just(32usize)])
            .prop_map(|(k, d, c)| (k * c + d).saturating_sub(2))
            .boxed()),
        (3, (71usize..=600).boxed()),
        (3, around(1024, 40)),
        (2, (993usize..=1100).boxed()),
        (2, (600usize..=3000).boxed()),
    ];
    if tier == Tier::Thorough {
        alts.push((2, around(8192, 40)));
        alts.push((1, around(2048, 34)));
        alts.push((1, (3000usize..=40000).boxed()));
    } else {
        alts.push((1, around(8192, 40)));
    }
    proptest::strategy::Union::new_weighted(alts).boxed()
}

// --- sequences ---------------------------------------------------------------

#[derive(Clone, Debug, Serialize, Deserialize, PartialEq)]
pub enum SeqSpec {
    /// Symbol indices written out (shrinkable symbol by symbol).
    Explicit(Vec<u8>),
    /// `len` symbols from a splitmix stream seeded with `seed`; `wild_pct` % wildcards.
    Seeded { len: usize, seed: u64, wild_pct: u8 },
    Homopolymer { len: usize, sym: u8 },
    /// `unit` repeated up to `len` symbols.
    Tandem { unit: Vec<u8>, len: usize },
}

impl SeqSpec {
    pub fn len(&self) -> usize {
        match self {
            SeqSpec::Explicit(v) => v.len(),
            SeqSpec::Seeded { len, .. } | SeqSpec::Homopolymer { len, .. } | SeqSpec::Tandem { len, .. } => *len,
        }
    }

    /// Expand to symbol indices of an alphabet with `k` symbols (wildcard = k-1).
    pub fn expand(&self, k: usize) -> Vec<u8> {
        let k8 = k as u8;
        match self {
            SeqSpec::Explicit(v) => v.iter().map(|&x| x % k8).collect(),
            SeqSpec::Seeded { len, seed, wild_pct } => {
                let mut out = Vec::with_capacity(*len);
                let mut s = *seed;
                for _ in 0..*len {
                    s = splitmix64(s);
                    let r = s >> 16;
                    if (r % 100) < *wild_pct as u64 {
                        out.push(k8 - 1);
                    } else {
                        out.push(((r / 100) % (k as u64 - 1)) as u8);
                    }
                }
                out
            }
            SeqSpec::Homopolymer { len, sym } => vec![sym % k8; *len],
            SeqSpec::Tandem { unit, len } => {
                if unit.is_empty() {
                    vec![k8 - 1; *len]
                } else {
                    (0..*len).map(|i| unit[i % unit.len()] % k8).collect()
                }
            }
        }
    }
}

pub fn symbol_strategy(k: usize) -> BoxedStrategy<u8> {
    let k = k as u8;
    prop_oneof![12 => 0u8..(k - 1), 1 => Just(k - 1)].boxed()
}

/// Sequence of a given length strategy.
pub fn seq_strategy(k: usize, len: BoxedStrategy<usize>) -> BoxedStrategy<SeqSpec> {
    len.prop_flat_map(move |n| {
        let explicit = proptest::collection::vec(symbol_strategy(k), n).prop_map(SeqSpec::Explicit).boxed();
        let seeded = (any::<u64>(), prop_oneof![3 => Just(0u8), 3 => Just(2u8), 1 => Just(30u8)])
            .prop_map(move |(seed, wild_pct)| SeqSpec::Seeded { len: n, seed, wild_pct })
            .boxed();
        let homo = (0u8..k as u8).prop_map(move |sym| SeqSpec::Homopolymer { len: n, sym }).boxed();
        let tandem = proptest::collection::vec(symbol_strategy(k), 1..=5)
            .prop_map(move |unit| SeqSpec::Tandem { unit, len: n })
            .boxed();
        if n <= 96 {
            prop_oneof![6 => explicit, 2 => seeded, 1 => homo, 2 => tandem].boxed()
        } else {
            prop_oneof![7 => seeded, 1 => homo, 2 => tandem].boxed()
        }
    })
    .boxed()
}

// --- backgrounds -------------------------------------------------------------

#[derive(Clone, Debug, Serialize, Deserialize, PartialEq)]
pub enum BgSpec {
    Uniform,
    /// `Background::from_counts`
    Counts(Vec<u32>),
    /// k/64 per symbol, summing to 64 (`Background::new` accepts: the sum is exact)
    Dyadic(Vec<u8>),
}

pub fn build_bg<A: Alphabet>(b: &BgSpec) -> Background<A> {
    match b {
        BgSpec::Uniform => Background::uniform(),
        BgSpec::Counts(c) => {
            let arr: GenericArray<usize, A::K> = c.iter().map(|&x| x as usize).collect();
            Background::from_counts(&arr).expect("generator only emits counts with a positive total")
        }
        BgSpec::Dyadic(d) => {
            let arr: GenericArray<f32, A::K> = d.iter().map(|&x| x as f32 / 64.0).collect();
            Background::new(arr).expect("dyadic frequencies sum to exactly one")
        }
    }
}

pub fn bg_freqs(abc: Abc, b: &BgSpec) -> Vec<f32> {
    with_abc!(abc, A => build_bg::<A>(b).frequencies().to_vec())
}

/// Split 64 into k non-negative parts (the last one being the wildcard's).
fn dyadic_strategy(k: usize, zero_wild: bool, allow_zero: bool) -> BoxedStrategy<Vec<u8>> {
    proptest::collection::vec(1u32..=1000, k)
        .prop_map(move |w| {
            let mut w = w;
            if zero_wild {
                w[k - 1] = 0;
            }
            if allow_zero {
                // knock out one real symbol now and then
                if w[0] % 5 == 0 {
                    let j = (w[0] as usize / 5) % (k - 1);
                    if (0..k - 1).filter(|&i| i != j).any(|i| w[i] > 0) {
                        w[j] = 0;
                    }
                }
            }
            // every non-zero weight gets at least 1/64; the rest is shared proportionally
            let nz = w.iter().filter(|&&x| x > 0).count() as u32;
            let total: u32 = w.iter().sum();
            let spare = 64 - nz;
            let mut parts: Vec<u8> = w.iter().map(|&x| if x > 0 { 1 + (x * spare / total) as u8 } else { 0 }).collect();
            let mut rest = 64 - parts.iter().map(|&x| x as i32).sum::<i32>();
            // hand the remainder to the non-zero-weight entries in turn
            let mut i = 0;
            while rest > 0 {
                if w[i % k] > 0 {
                    parts[i % k] += 1;
                    rest -= 1;
                }
                i += 1;
            }
            parts
        })
        .boxed()
}

/// `wild`: allow a non-zero wildcard frequency; `zeros`: allow zero-frequency real symbols.
pub fn bg_strategy(k: usize, wild: bool, zeros: bool) -> BoxedStrategy<BgSpec> {
    let counts = proptest::collection::vec(if zeros { 0u32..=500 } else { 1u32..=500 }, k)
        .prop_map(move |mut c| {
            if !wild {
                c[k - 1] = 0;
            }
            if c.iter().all(|&x| x == 0) {
                c[0] = 1;
            }
            BgSpec::Counts(c)
        })
        .boxed();
    let dy = (any::<bool>(), dyadic_strategy(k, true, zeros), dyadic_strategy(k, false, zeros))
        .prop_map(move |(w, a, b)| BgSpec::Dyadic(if wild && w { b } else { a }))
        .boxed();
    // one symbol seen a few times among billions: a non-zero frequency far below f32::EPSILON
    let tiny = (proptest::collection::vec(1u32..=500, k), 0usize..k, 1u32..=3, 1_000_000_000u32..=4_000_000_000u32)
        .prop_map(move |(mut c, j, few, many)| {
            if !wild {
                c[k - 1] = 0;
            }
            let j = if !wild && j == k - 1 { 0 } else { j };
            let big = (j + 1) % (k - 1);
            c[big] = many;
            c[j] = few;
            BgSpec::Counts(c)
        })
        .boxed();
    prop_oneof![6 => Just(BgSpec::Uniform), 6 => counts, 6 => dy, 1 => tiny].boxed()
}

/// Background paired with scores that are written down directly (`ScoringMatrix::new(background, scores)` takes any
/// pair): one time in four a symbol that never occurs in the background still has finite scores, as when scores
/// come from a file and the background is estimated from data that lack one residue.
fn declared_bg(k: usize) -> BoxedStrategy<BgSpec> {
    prop_oneof![3 => bg_strategy(k, true, false), 1 => bg_strategy(k, true, true)].boxed()
}

// --- scoring matrices --------------------------------------------------------

#[derive(Clone, Debug, Serialize, Deserialize, PartialEq)]
pub struct MatSpec {
    /// M rows of K cells (last = wildcard column)
    pub rows: Vec<Vec<Fl>>,
    pub bg: BgSpec,
    /// which content regime produced it (label only)
    pub regime: String,
}

impl MatSpec {
    pub fn m(&self) -> usize {
        self.rows.len()
    }
    pub fn cells(&self) -> Vec<Vec<f32>> {
        self.rows.iter().map(|r| r.iter().map(|x| x.0).collect()).collect()
    }
}

pub fn build_pssm<A: Alphabet>(m: &MatSpec) -> ScoringMatrix<A> {
    let rows: Vec<Vec<f32>> = m.cells();
    let mut dm = DenseMatrix::<f32, A::K>::new(rows.len());
    for (i, r) in rows.iter().enumerate() {
        dm[i].copy_from_slice(r);
    }
    ScoringMatrix::new(build_bg::<A>(&m.bg), dm)
}

pub fn width_strategy(max: usize) -> BoxedStrategy<usize> {
    let mut alts: Vec<(u32, BoxedStrategy<usize>)> = vec![(2, Just(1usize).boxed()), (6, (2usize..=8.min(max)).boxed())];
    if max > 8 {
        alts.push((5, (9usize..=20.min(max)).boxed()));
    }
    if max > 20 {
        alts.push((2, (21usize..=max).boxed()));
    }
    proptest::strategy::Union::new_weighted(alts).boxed()
}

#[derive(Clone, Copy, Debug, PartialEq, Eq)]
pub struct Regimes {
    /// (a) library-made from counts with a positive pseudocount (wildcard column -inf)
    pub library: bool,
    /// (b) arbitrary finite cells in [-32, 32], finite wildcard column
    pub finite: bool,
    /// (c) library-made with pseudocount 0 (-inf cells in real columns)
    pub neginf: bool,
    /// (d) small integers (all sums exact in f32)
    pub small_int: bool,
    /// (e) few distinct values +- 1e-3 (near ties)
    pub near_tie: bool,
}

impl Regimes {
    pub const ALL: Regimes = Regimes { library: true, finite: true, neginf: true, small_int: true, near_tie: false };
    pub const FINITE_REAL: Regimes =
        Regimes { library: true, finite: true, neginf: false, small_int: true, near_tie: false };
}

/// Library-made scoring matrix cells: counts -> to_freq(pseudo) -> to_scoring(bg).
fn library_cells(abc: Abc, counts: &[Vec<u32>], pseudo: f32, bg: &BgSpec) -> Vec<Vec<Fl>> {
    with_abc!(abc, A => {
        let k = abc.k();
        let mut dm = DenseMatrix::<u32, <A as Alphabet>::K>::new(counts.len());
        for (i, r) in counts.iter().enumerate() {
            for j in 0..k { dm[i][j] = r[j]; }
        }
        let cm = CountMatrix::<A>::new(dm).unwrap();
        let pssm = cm.to_freq(pseudo).to_scoring(build_bg::<A>(bg));
        (0..counts.len()).map(|i| pssm.matrix()[i].iter().map(|&x| Fl(x)).collect()).collect()
    })
}

pub fn mat_strategy(abc: Abc, width: BoxedStrategy<usize>, reg: Regimes) -> BoxedStrategy<MatSpec> {
    let k = abc.k();
    width
        .prop_flat_map(move |m| {
            let mut alts: Vec<(u32, BoxedStrategy<MatSpec>)> = Vec::new();
            let count_rows = proptest::collection::vec(
                proptest::collection::vec(prop_oneof![2 => Just(0u32), 5 => 0u32..=30, 1 => 0u32..=1000], k).prop_map(
                    move |mut r| {
                        r[k - 1] = 0;
                        if r.iter().all(|&x| x == 0) {
                            r[0] = 1;
                        }
                        r
                    },
                ),
                m,
            );
            if reg.library {
                alts.push((
                    4,
                    (count_rows.clone(), prop_oneof![Just(0.1f32), Just(0.25f32), Just(1.0f32), Just(0.01f32)], bg_strategy(k, false, false))
                        .prop_map(move |(c, p, bg)| MatSpec { rows: library_cells(abc, &c, p, &bg), bg, regime: "library".into() })
                        .boxed(),
                ));
            }
            if reg.neginf {
                alts.push((
                    2,
                    (count_rows.clone(), bg_strategy(k, false, false))
                        .prop_map(move |(c, bg)| MatSpec { rows: library_cells(abc, &c, 0.0, &bg), bg, regime: "library-p0".into() })
                        .boxed(),
                ));
            }
            if reg.finite {
                alts.push((
                    3,
                    (proptest::collection::vec(proptest::collection::vec(-32.0f32..=32.0, k), m), declared_bg(k))
                        .prop_map(|(rows, bg)| MatSpec {
                            rows: rows.into_iter().map(|r| r.into_iter().map(Fl).collect()).collect(),
                            bg,
                            regime: "finite".into(),
                        })
                        .boxed(),
                ));
            }
            if reg.small_int {
                alts.push((
                    2,
                    (proptest::collection::vec(proptest::collection::vec(-8i32..=8, k), m), declared_bg(k))
                        .prop_map(|(rows, bg)| MatSpec {
                            rows: rows.into_iter().map(|r| r.into_iter().map(|x| Fl(x as f32)).collect()).collect(),
                            bg,
                            regime: "small-int".into(),
                        })
                        .boxed(),
                ));
            }
            if reg.near_tie {
                alts.push((
                    4,
                    (
                        proptest::collection::vec(proptest::collection::vec((0u8..3, -1i8..=1), k), m),
                        proptest::collection::vec(-4.0f32..4.0, 3),
                        any::<bool>(),
                    )
                        .prop_map(move |(rows, vals, wild_inf)| MatSpec {
                            rows: rows
                                .into_iter()
                                .map(|r| {
                                    let mut out: Vec<Fl> =
                                        r.into_iter().map(|(v, d)| Fl(vals[v as usize] + d as f32 * 1e-3)).collect();
                                    if wild_inf {
                                        out[k - 1] = Fl(f32::NEG_INFINITY);
                                    }
                                    out
                                })
                                .collect(),
                            bg: BgSpec::Uniform,
                            regime: "near-tie".into(),
                        })
                        .boxed(),
                ));
            }
            proptest::strategy::Union::new_weighted(alts)
        })
        .boxed()
}

// --- references --------------------------------------------------------------

/// `sum_j m[j][seq[i+j]]` summed left to right in f32 from 0.0 — the order every
/// backend and `score_position` use, hence "the" score of a position.
pub fn ref_scores_f32(cells: &[Vec<f32>], seq: &[u8]) -> Vec<f32> {
    let m = cells.len();
    if m == 0 || seq.len() < m {
        return Vec::new();
    }
    (0..=seq.len() - m)
        .map(|i| {
            let mut s = 0.0f32;
            for j in 0..m {
                s += cells[j][seq[i + j] as usize];
            }
            s
        })
        .collect()
}

/// Exact-ish reference in f64 together with `sum_j |term|` (for the error bound)
/// and whether some term is -inf.
pub fn ref_scores_f64(cells: &[Vec<f32>], seq: &[u8]) -> Vec<(f64, f64, bool)> {
    let m = cells.len();
    if m == 0 || seq.len() < m {
        return Vec::new();
    }
    (0..=seq.len() - m)
        .map(|i| {
            let mut s = 0.0f64;
            let mut a = 0.0f64;
            let mut inf = false;
            for j in 0..m {
                let t = cells[j][seq[i + j] as usize] as f64;
                if t == f64::NEG_INFINITY {
                    inf = true;
                } else {
                    s += t;
                    a += t.abs();
                }
            }
            (s, a, inf)
        })
        .collect()
}


/// A striped sequence built through `StripedSequence::new` from a hand-filled matrix instead of striping:
/// `spare` rows more than ceil(L/C) (position p lives at row p % rows, column p / rows, as `Index` defines),
/// and every cell that holds no position filled with arbitrary symbols (what `StripedSequence::sample`
/// leaves there) instead of the wildcard.
pub fn striped_via_new<A: lightmotif::abc::Alphabet, C: lightmotif::num::PositiveLength>(idx: &[u8], spare: usize, seed: u64) -> lightmotif::seq::StripedSequence<A, C> {
    use lightmotif::abc::Symbol;
    let l = idx.len();
    let c = C::USIZE;
    let rows = (l + c - 1) / c + spare;
    let symbols = A::symbols();
    let mut m = lightmotif::dense::DenseMatrix::<A::Symbol, C>::new(rows);
    let mut s = seed;
    for i in 0..rows {
        for j in 0..c {
            s = crate::engine::splitmix64(s);
            m[i][j] = symbols[(s >> 33) as usize % symbols.len()];
        }
    }
    for (p, &x) in idx.iter().enumerate() {
        m[p % rows][p / rows] = symbols[x as usize];
    }
    let _ = A::Symbol::default().as_index();
    lightmotif::seq::StripedSequence::new(m, l).expect("rows * C >= L")
}
