//! C19 — dense matrix storage keeps rows aligned and contents intact across operations.

use std::fmt::Debug;

use lightmotif::dense::{DenseMatrix, MatrixCoordinates, MatrixElement};
use lightmotif::num::{ArrayLength, U1, U16, U21, U32, U43, U5, U7};
use proptest::prelude::*;
use serde::{Deserialize, Serialize};

use crate::engine::*;

#[derive(Clone, Copy, Debug, PartialEq, Eq, Serialize, Deserialize)]
pub enum Ty {
    U8,
    U32,
    F32,
    I64,
    /// a DNA symbol: an element type whose default (the wildcard N = 4) is not the all-zero bit pattern - it is
    /// the element type of every striped sequence
    Sym,
    /// `[u8; 3]` (a codon, an RGB triple): 3 bytes, a size that does not divide the 32-byte alignment unit
    #[serde(rename = "Bytes3")]
    Bytes3,
    /// `[f32; 3]` (a point): 12 bytes, likewise
    Floats3,
}

#[derive(Clone, Debug, Serialize, Deserialize)]
pub enum Op {
    New(usize),
    WithCapacity(usize, usize),
    Resize(usize),
    Reserve(usize),
    /// write through `IndexMut<usize>` (row slice)
    SetCell(usize, usize, i64),
    /// write through `IndexMut<MatrixCoordinates>`
    SetCellMc(usize, usize, i64),
    /// overwrite a whole row with `base + column`
    SetRow(usize, i64),
    Fill(i64),
    /// rebuild with `from_rows` from `n` rows of `base + 3*row + column`
    FromRows(usize, i64),
    /// clone, continue on the clone, check the original is untouched by a write to the clone
    CloneContinue,
    /// add `k` to every cell through `iter_mut`
    IterMutAdd(i64),
    /// add `k` to every cell through `IntoIterator for &mut`
    IntoIterMutAdd(i64),
    /// `dst.clone_from(&current)` into another matrix built with `rows` rows, `extra` spare capacity and
    /// `base` in every cell; continue on `dst`
    CloneInto { rows: usize, extra: usize, base: i64 },
    /// `current.clone_from(&src)` where `src` has `rows` rows of `base + 3*row + column`
    CloneFrom { rows: usize, base: i64 },
    /// address a cell that the table does not have - column `columns + over` of an existing row (`beyond_rows`
    /// false) or an existing column of row `rows + over` - through `Index` / `IndexMut<MatrixCoordinates>`
    /// (`by_row` false) or through the row slice; read it, or write `v` to it
    Outside { row: usize, over: usize, beyond_rows: bool, by_row: bool, write: bool, v: i64 },
}

#[derive(Clone, Debug, Serialize, Deserialize)]
pub struct Case {
    pub ty: Ty,
    pub cols: usize,
    pub ops: Vec<Op>,
}

pub trait Elem: MatrixElement + PartialEq + Debug {
    fn from_i64(v: i64) -> Self;
    fn add_i64(self, v: i64) -> Self;
    /// a value that is not equal to itself, if the element type has one
    fn not_self_equal() -> Option<Self> {
        None
    }
}
impl Elem for u8 {
    fn from_i64(v: i64) -> Self {
        v as u8
    }
    fn add_i64(self, v: i64) -> Self {
        self.wrapping_add(v as u8)
    }
}
impl Elem for u32 {
    fn from_i64(v: i64) -> Self {
        v as u32
    }
    fn add_i64(self, v: i64) -> Self {
        self.wrapping_add(v as u32)
    }
}
impl Elem for i64 {
    fn from_i64(v: i64) -> Self {
        v
    }
    fn add_i64(self, v: i64) -> Self {
        self.wrapping_add(v)
    }
}
impl Elem for lightmotif::abc::Nucleotide {
    fn from_i64(v: i64) -> Self {
        use lightmotif::abc::Alphabet;
        lightmotif::abc::Dna::symbols()[v.rem_euclid(5) as usize]
    }
    fn add_i64(self, v: i64) -> Self {
        use lightmotif::abc::{Alphabet, Symbol};
        lightmotif::abc::Dna::symbols()[(self.as_index() as i64 + v).rem_euclid(5) as usize]
    }
}
impl Elem for [u8; 3] {
    fn from_i64(v: i64) -> Self {
        [v as u8, (v >> 8) as u8 ^ 0x5a, (v >> 3) as u8 ^ 0xc3]
    }
    fn add_i64(self, v: i64) -> Self {
        [self[0].wrapping_add(v as u8), self[1], self[2].wrapping_add((v * 7) as u8)]
    }
}
impl Elem for [f32; 3] {
    fn from_i64(v: i64) -> Self {
        [(v % 1000) as f32, (v % 77) as f32 + 0.5, -((v % 13) as f32)]
    }
    fn add_i64(self, v: i64) -> Self {
        [self[0] + (v % 1000) as f32, self[1], self[2] - (v % 5) as f32]
    }
}
impl Elem for f32 {
    fn not_self_equal() -> Option<Self> {
        Some(f32::NAN)
    }
    fn from_i64(v: i64) -> Self {
        (v % 100_000) as f32
    }
    fn add_i64(self, v: i64) -> Self {
        self + (v % 1000) as f32
    }
}

pub struct Model;

fn op_strategy() -> BoxedStrategy<Op> {
    let rows = prop_oneof![1 => Just(0usize), 6 => 0usize..=12, 2 => 12usize..=80];
    let val = prop_oneof![3 => -5i64..=300, 1 => any::<i64>()];
    prop_oneof![
        1 => rows.clone().prop_map(Op::New),
        1 => (rows.clone(), 0usize..=100).prop_map(|(r, c)| Op::WithCapacity(r, c)),
        6 => rows.clone().prop_map(Op::Resize),
        1 => (0usize..=200).prop_map(Op::Reserve),
        5 => (any::<usize>(), any::<usize>(), val.clone()).prop_map(|(r, c, v)| Op::SetCell(r, c, v)),
        3 => (any::<usize>(), any::<usize>(), val.clone()).prop_map(|(r, c, v)| Op::SetCellMc(r, c, v)),
        3 => (any::<usize>(), val.clone()).prop_map(|(r, v)| Op::SetRow(r, v)),
        2 => val.clone().prop_map(Op::Fill),
        1 => (0usize..=10, val.clone()).prop_map(|(n, v)| Op::FromRows(n, v)),
        2 => Just(Op::CloneContinue),
        1 => (-3i64..=3).prop_map(Op::IterMutAdd),
        1 => (-3i64..=3).prop_map(Op::IntoIterMutAdd),
        1 => (rows.clone(), 0usize..=40, val.clone()).prop_map(|(rows, extra, base)| Op::CloneInto { rows, extra, base }),
        1 => (rows.clone(), val.clone()).prop_map(|(rows, base)| Op::CloneFrom { rows, base }),
        2 => (any::<usize>(), prop_oneof![4 => 0usize..=2, 2 => 0usize..=40, 1 => 0usize..=4000], any::<bool>(), any::<bool>(), any::<bool>(), val.clone())
            .prop_map(|(row, over, beyond_rows, by_row, write, v)| Op::Outside { row, over, beyond_rows, by_row, write, v }),
    ]
    .boxed()
}

fn verify<T: Elem, C: ArrayLength>(step: usize, op: &str, m: &DenseMatrix<T, C>, model: &[Vec<T>], info: &mut CaseInfo) -> Option<Failure> {
    let fail = |kind: &str, msg: String| Some(Failure::new(format!("dense:{}", kind), format!("after op #{} ({}): {}", step, op, msg)));
    let c = C::USIZE;
    if m.rows() != model.len() {
        return fail("rows", format!("rows() = {} expected {}", m.rows(), model.len()));
    }
    if m.columns() != c {
        return fail("columns", format!("columns() = {} expected {}", m.columns(), c));
    }
    let align = if cfg!(target_arch = "x86_64") { 32 } else { 16 };
    let size = std::mem::size_of::<T>();
    // stride() counts elements: it is exact when the element size divides the alignment unit (then stride x size must
    // be whole units), and the element count of the row pitch rounded down otherwise; the pitch itself - the distance
    // between the starts of two consecutive rows - is measured below for every element type
    if m.stride() < c || (align % size == 0 && (m.stride() * size) % align != 0) {
        return fail("stride", format!("stride {} (x {} bytes) is not >= {} and a multiple of {} bytes", m.stride(), size, c, align));
    }
    if model.len() >= 2 {
        let pitch = (m[1].as_ptr() as usize).wrapping_sub(m[0].as_ptr() as usize);
        if pitch % align != 0 || pitch < c * size || pitch / size != m.stride() {
            return fail("stride", format!("rows lie {} bytes apart: not a whole number of {}-byte units holding {} elements of {} bytes, or not what stride() = {} says", pitch, align, c, size, m.stride()));
        }
    }
    for (i, row) in model.iter().enumerate() {
        let got = &m[i];
        if got.len() != c {
            return fail("row-len", format!("row {} has {} elements", i, got.len()));
        }
        if (got.as_ptr() as usize) % align != 0 {
            return fail("alignment", format!("row {} starts at {:p}, not {}-byte aligned", i, got.as_ptr(), align));
        }
        info.comparisons += c as u64;
        if got != row.as_slice() {
            return fail("cells", format!("row {} = {:?} expected {:?}", i, got, row));
        }
        for j in 0..c {
            if m[MatrixCoordinates::new(i, j)] != row[j] {
                return fail("cells-mc", format!("cell ({}, {}) via MatrixCoordinates differs", i, j));
            }
        }
    }
    // iterators visit exactly the rows, in order, both ways
    let it = m.iter();
    if it.len() != model.len() {
        return fail("iter-len", format!("iter().len() = {} expected {}", it.len(), model.len()));
    }
    let fwd: Vec<&[T]> = m.iter().collect();
    let mut bwd: Vec<&[T]> = m.iter().rev().collect();
    bwd.reverse();
    let into: Vec<&[T]> = m.into_iter().collect();
    for (name, rows) in [("iter", &fwd), ("iter.rev", &bwd), ("into_iter", &into)] {
        if rows.len() != model.len() || rows.iter().zip(model.iter()).any(|(a, b)| *a != b.as_slice()) {
            return fail("iter", format!("{} does not visit the rows in order", name));
        }
    }
    // mixed double-ended consumption
    let mut de = m.iter();
    let mut lo = 0usize;
    let mut hi = model.len();
    let mut turn = true;
    while lo < hi {
        let (got, want) = if turn {
            lo += 1;
            (de.next(), &model[lo - 1])
        } else {
            hi -= 1;
            (de.next_back(), &model[hi])
        };
        if got != Some(want.as_slice()) {
            return fail("iter", "double-ended iteration returns a wrong row".to_string());
        }
        turn = !turn;
    }
    if de.next().is_some() || de.next_back().is_some() {
        return fail("iter", "iterator yields more rows than the matrix has".to_string());
    }
    // the other methods of Iterator / DoubleEndedIterator / ExactSizeIterator, which an implementation may override:
    // held against the same methods of the model's slice iterator (k walks over 0..=rows with the step number)
    let n = model.len();
    let k = step % (n + 1);
    let rows_of = |v: Vec<&[T]>| -> Vec<Vec<T>> { v.into_iter().map(|r| r.to_vec()).collect() };
    let want_of = |v: Vec<&Vec<T>>| -> Vec<Vec<T>> { v.into_iter().cloned().collect() };
    // (size_hint() is not compared: the property speaks of the rows visited, and the iterators leave the default
    // (0, None) in place while answering len() exactly)
    if m.iter().count() != n {
        return fail("iter-adaptors", format!("count() = {} for {} rows", m.iter().count(), n));
    }
    if m.iter().last().map(|r| r.to_vec()) != model.last().cloned() {
        return fail("iter-adaptors", "last() is not the last row".to_string());
    }
    {
        let (mut a, mut b) = (m.iter(), model.iter());
        if a.nth(k).map(|r| r.to_vec()) != b.nth(k).cloned() || a.len() != b.len() || rows_of(a.collect()) != want_of(b.collect()) {
            return fail("iter-adaptors", format!("nth({}) of {} rows: wrong row, or wrong rows left afterwards", k, n));
        }
        let (mut a, mut b) = (m.iter(), model.iter());
        if a.nth_back(k).map(|r| r.to_vec()) != b.nth_back(k).cloned() || a.len() != b.len() || rows_of(a.collect()) != want_of(b.collect()) {
            return fail("iter-adaptors", format!("nth_back({}) of {} rows: wrong row, or wrong rows left afterwards", k, n));
        }
        // one from each end first, then nth / nth_back on what is left
        let (mut a, mut b) = (m.iter(), model.iter());
        let _ = (a.next(), b.next(), a.next_back(), b.next_back());
        let k2 = k / 2;
        if a.nth_back(k2).map(|r| r.to_vec()) != b.nth_back(k2).cloned() || a.nth(k2).map(|r| r.to_vec()) != b.nth(k2).cloned() || a.len() != b.len() {
            return fail("iter-adaptors", format!("next / next_back / nth_back({}) / nth({}) of {} rows disagree with a slice iterator", k2, k2, n));
        }
    }
    if rows_of(m.iter().rev().skip(k).collect()) != want_of(model.iter().rev().skip(k).collect())
        || rows_of(m.iter().skip(k).step_by(k + 1).collect()) != want_of(model.iter().skip(k).step_by(k + 1).collect())
        || rows_of(m.iter().rev().step_by(k + 1).collect()) != want_of(model.iter().rev().step_by(k + 1).collect())
    {
        return fail("iter-adaptors", format!("rev().skip({0}) / skip({0}).step_by({1}) / rev().step_by({1}) of {2} rows disagree with a slice iterator", k, k + 1, n));
    }
    info.comparisons += 8;
    None
}

fn run<T: Elem, C: ArrayLength + PartialEq>(case: &Case) -> Verdict {
    let c = C::USIZE;
    let mut info = CaseInfo::new();
    let mut m = DenseMatrix::<T, C>::new(0);
    let mut model: Vec<Vec<T>> = Vec::new();
    let mut wrote = false;
    let mut grew_after_write = false;
    let mut shrank = false;
    let mut outside = 0usize;
    if let Some(f) = verify(0, "new(0)", &m, &model, &mut info) {
        return Verdict::Fail(f);
    }
    for (i, op) in case.ops.iter().enumerate() {
        let name;
        match op {
            Op::New(r) => {
                m = DenseMatrix::new(*r);
                model = vec![vec![T::default(); c]; *r];
                name = "new";
            }
            Op::WithCapacity(r, cap) => {
                m = DenseMatrix::with_capacity(*r, *cap);
                model = vec![vec![T::default(); c]; *r];
                if m.capacity() < *cap {
                    return Verdict::Fail(Failure::new("dense:capacity", format!("with_capacity({}, {}) has capacity {}", r, cap, m.capacity())));
                }
                name = "with_capacity";
            }
            Op::Resize(r) => {
                if *r > model.len() && wrote {
                    grew_after_write = true;
                }
                if *r < model.len() {
                    shrank = true;
                }
                m.resize(*r);
                model.resize(*r, vec![T::default(); c]);
                name = "resize";
            }
            Op::Reserve(n) => {
                m.reserve(*n);
                if m.capacity() < m.rows() + *n {
                    return Verdict::Fail(Failure::new("dense:capacity", format!("reserve({}) leaves capacity {} for {} rows", n, m.capacity(), m.rows())));
                }
                name = "reserve";
            }
            Op::SetCell(r, col, v) => {
                if !model.is_empty() {
                    let (r, col) = (r % model.len(), col % c);
                    m[r][col] = T::from_i64(*v);
                    model[r][col] = T::from_i64(*v);
                    wrote = true;
                }
                name = "set-cell";
            }
            Op::SetCellMc(r, col, v) => {
                if !model.is_empty() {
                    let (r, col) = (r % model.len(), col % c);
                    m[MatrixCoordinates::new(r, col)] = T::from_i64(*v);
                    model[r][col] = T::from_i64(*v);
                    wrote = true;
                }
                name = "set-cell-mc";
            }
            Op::SetRow(r, base) => {
                if !model.is_empty() {
                    let r = r % model.len();
                    let vals: Vec<T> = (0..c).map(|j| T::from_i64(base.wrapping_add(j as i64))).collect();
                    m[r].copy_from_slice(&vals);
                    model[r] = vals;
                    wrote = true;
                }
                name = "set-row";
            }
            Op::Fill(v) => {
                m.fill(T::from_i64(*v));
                for row in model.iter_mut() {
                    for x in row.iter_mut() {
                        *x = T::from_i64(*v);
                    }
                }
                name = "fill";
            }
            Op::FromRows(n, base) => {
                let rows: Vec<Vec<T>> = (0..*n).map(|i| (0..c).map(|j| T::from_i64(base.wrapping_add((3 * i + j) as i64))).collect()).collect();
                m = DenseMatrix::from_rows(rows.iter());
                model = rows;
                name = "from_rows";
            }
            Op::CloneContinue => {
                let orig = m;
                let mut cl = orig.clone();
                if cl != orig {
                    return Verdict::Fail(Failure::new("dense:clone-eq", "a clone is not equal to its original".to_string()));
                }
                if !model.is_empty() {
                    // writing to the clone must not show in the original
                    let before = orig[0][0];
                    cl[0][0] = before.add_i64(1);
                    if orig[0][0] != before {
                        return Verdict::Fail(Failure::new("dense:clone-shared", "a write to a clone is visible in the original".to_string()));
                    }
                    if cl == orig && before.add_i64(1) != before {
                        return Verdict::Fail(Failure::new("dense:eq", "matrices differing in one cell compare equal".to_string()));
                    }
                    cl[0][0] = before;
                }
                if let Some(f) = verify(i + 1, "clone (original)", &orig, &model, &mut info) {
                    return Verdict::Fail(f);
                }
                m = cl;
                name = "clone";
            }
            Op::CloneInto { rows, extra, base } => {
                let mut dst = DenseMatrix::<T, C>::with_capacity(*rows, *rows + *extra);
                dst.fill(T::from_i64(*base));
                dst.clone_from(&m);
                if dst != m {
                    return Verdict::Fail(Failure::new("dense:clone-eq", format!("after dst.clone_from(&src) dst != src (dst had {} rows, src has {})", rows, model.len())));
                }
                if let Some(f) = verify(i + 1, "clone_from (source)", &m, &model, &mut info) {
                    return Verdict::Fail(f);
                }
                m = dst;
                name = "clone_from (destination)";
            }
            Op::Outside { row, over, beyond_rows, by_row, write, v } => {
                let (r, col) = if *beyond_rows || model.is_empty() { (model.len() + over, row % c) } else { (row % model.len(), c + over) };
                let val = T::from_i64(*v);
                let mm = &mut m;
                let outcome = catch_inner(move || {
                    if *by_row {
                        if *write {
                            mm[r][col] = val;
                        } else {
                            std::hint::black_box(mm[r][col]);
                        }
                    } else if *write {
                        mm[MatrixCoordinates::new(r, col)] = val;
                    } else {
                        std::hint::black_box(mm[MatrixCoordinates::new(r, col)]);
                    }
                });
                info.comparisons += 1;
                if outcome.is_ok() {
                    return Verdict::Fail(Failure::new(
                        "dense:cell-outside-the-table",
                        format!(
                            "after op #{}: a {} of cell (row {}, column {}) through {} succeeded on a table of {} rows x {} columns",
                            i + 1,
                            if *write { "write" } else { "read" },
                            r,
                            col,
                            if *by_row { "the row slice" } else { "MatrixCoordinates" },
                            model.len(),
                            c
                        ),
                    ));
                }
                outside += 1;
                name = "cell-outside-the-table";
            }
            Op::CloneFrom { rows, base } => {
                let src_rows: Vec<Vec<T>> = (0..*rows).map(|i| (0..c).map(|j| T::from_i64(base.wrapping_add((3 * i + j) as i64))).collect()).collect();
                let src = DenseMatrix::<T, C>::from_rows(src_rows.iter());
                m.clone_from(&src);
                if m != src {
                    return Verdict::Fail(Failure::new("dense:clone-eq", format!("after dst.clone_from(&src) dst != src (dst had {} rows, src has {})", model.len(), rows)));
                }
                model = src_rows;
                name = "clone_from";
            }
            Op::IterMutAdd(k) => {
                let n = m.iter_mut().len();
                if n != model.len() {
                    return Verdict::Fail(Failure::new("dense:iter-len", format!("iter_mut().len() = {} expected {}", n, model.len())));
                }
                for row in m.iter_mut() {
                    for x in row.iter_mut() {
                        *x = x.add_i64(*k);
                    }
                }
                for row in model.iter_mut() {
                    for x in row.iter_mut() {
                        *x = x.add_i64(*k);
                    }
                }
                // writes through nth / nth_back / rev().skip() of the mutable iterator land in the rows a slice
                // iterator designates
                let nrows = model.len();
                let j = i % (nrows + 1);
                let mut it = m.iter_mut();
                let mut mit = model.iter_mut();
                for (a, b) in [(it.nth_back(j), mit.nth_back(j)), (it.nth(j / 2), mit.nth(j / 2))] {
                    match (a, b) {
                        (Some(a), Some(b)) => {
                            a[0] = a[0].add_i64(1);
                            b[0] = b[0].add_i64(1);
                        }
                        (None, None) => {}
                        (a, _) => return Verdict::Fail(Failure::new("dense:iter-adaptors", format!("iter_mut().nth_back({}) / nth({}) of {} rows is {} where a slice iterator is not", j, j / 2, nrows, if a.is_some() { "Some" } else { "None" }))),
                    }
                }
                for (a, b) in m.iter_mut().rev().skip(j).zip(model.iter_mut().rev().skip(j)) {
                    a[c - 1] = a[c - 1].add_i64(2);
                    b[c - 1] = b[c - 1].add_i64(2);
                }
                name = "iter_mut";
            }
            Op::IntoIterMutAdd(k) => {
                // reverse traversal through the mutable iterator
                for row in (&mut m).into_iter().rev() {
                    for x in row.iter_mut() {
                        *x = x.add_i64(*k);
                    }
                }
                for row in model.iter_mut() {
                    for x in row.iter_mut() {
                        *x = x.add_i64(*k);
                    }
                }
                name = "into_iter_mut.rev";
            }
        }
        if let Some(f) = verify(i + 1, name, &m, &model, &mut info) {
            return Verdict::Fail(f);
        }
    }
    // equality depends only on the logical cells: rebuild with a different padding history
    let mut other = DenseMatrix::<T, C>::new(model.len());
    other.fill(T::from_i64(77));
    for (i, row) in model.iter().enumerate() {
        other[i].copy_from_slice(row);
    }
    if other != m || m != other {
        return Verdict::Fail(Failure::new("dense:eq-padding", "matrices with equal logical cells but a different padding history compare unequal".to_string()));
    }
    if !model.is_empty() {
        let v = other[model.len() - 1][c - 1];
        if v.add_i64(1) != v {
            other[model.len() - 1][c - 1] = v.add_i64(1);
            if other == m {
                return Verdict::Fail(Failure::new("dense:eq", "matrices differing in their last cell compare equal".to_string()));
            }
        }
        let mut shorter = m.clone();
        shorter.resize(model.len() - 1);
        if shorter == m {
            return Verdict::Fail(Failure::new("dense:eq", "matrices with different row counts compare equal".to_string()));
        }
    }
    // equality is that of the cells, whoever the operands are: a matrix holding a value that is not equal to
    // itself (a float NaN) is not equal to a clone of itself - and, by the same cells, not equal to itself
    if let (Some(nan), false) = (T::not_self_equal(), model.is_empty()) {
        let mut n = m.clone();
        let r = model.len() / 2;
        n[r][c / 2] = nan;
        let cl = n.clone();
        let by_clone = n == cl;
        #[allow(clippy::eq_op)]
        let by_self = n == n;
        #[allow(clippy::eq_op)]
        let ne_self = n != n;
        if by_clone || by_self || !ne_self {
            return Verdict::Fail(Failure::new(
                "dense:eq-not-by-cells",
                format!("a matrix with a NaN cell: == clone gives {}, == itself gives {}, != itself gives {} (the cells say false / false / true)", by_clone, by_self, ne_self),
            ));
        }
        info.class("nan-equality-checked");
    }
    info.nontrivial = case.ops.len() >= 5 && grew_after_write && shrank;
    info.class(match case.ty {
        Ty::U8 => "u8",
        Ty::U32 => "u32",
        Ty::F32 => "f32",
        Ty::I64 => "i64",
        Ty::Sym => "nucleotide(default!=zero-bits)",
        Ty::Bytes3 => "[u8;3](size-does-not-divide-32)",
        Ty::Floats3 => "[f32;3](size-does-not-divide-32)",
    });
    info.class(match c {
        1 => "C=1",
        5 => "C=5",
        7 => "C=7",
        16 => "C=16",
        21 => "C=21",
        32 => "C=32",
        _ => "C=43",
    });
    info.class_if(grew_after_write, "grow-after-write");
    info.class_if(shrank, "shrink");
    info.class_if(outside > 0, "cell-outside-the-table-addressed");
    info.class_if(case.ops.iter().any(|o| matches!(o, Op::CloneContinue)), "clone");
    info.class_if(case.ops.iter().any(|o| matches!(o, Op::CloneInto { .. } | Op::CloneFrom { .. })), "clone_from");
    info.class_if(case.ops.iter().any(|o| matches!(o, Op::Fill(_))), "fill");
    Verdict::Pass(info)
}

macro_rules! dispatch_cols {
    ($case:expr, $T:ty) => {
        match $case.cols {
            1 => run::<$T, U1>($case),
            5 => run::<$T, U5>($case),
            7 => run::<$T, U7>($case),
            16 => run::<$T, U16>($case),
            21 => run::<$T, U21>($case),
            32 => run::<$T, U32>($case),
            _ => run::<$T, U43>($case),
        }
    };
}

impl Sub for Model {
    type Case = Case;
    fn name(&self) -> &'static str {
        "model"
    }
    fn rule(&self) -> &'static str {
        "element type {u8, u32, f32, i64, Nucleotide (whose default is not the zero bit pattern), [u8;3] and [f32;3] (sizes that do not divide the 32-byte unit; one case in six)} x column count {1,5,7,16,21,32,43} x history of up to 40 ops (new, with_capacity, resize grow/shrink/0, reserve, cell writes via both Index forms, row writes, fill, from_rows, clone-and-continue, clone_from in both directions between matrices of different row counts and capacities, iter_mut, into_iter_mut.rev, and reads / writes of a cell the table does not have - a column >= columns of an existing row or a row >= rows - through MatrixCoordinates and through the row slice, which must be refused); after EVERY op rows/columns/all cells/row pointer alignment/stride/iterators (forward, reverse, mixed double-ended, len, count, last, nth / nth_back with the rows left afterwards, rev().skip, skip().step_by, rev().step_by - shared and, for writes, mutable) are compared with a Vec<Vec<T>> model, then equality against a matrix with equal cells but a different padding history, and (f32) equality of a matrix holding a NaN with its clone and with itself (by the cells: unequal both times); non-trivial = >= 5 ops incl. a growing resize after writes and a shrink"
    }
    fn cases(&self, tier: Tier) -> u64 {
        tier.pick(28 * 3_000, 28 * 60_000)
    }
    fn strategy(&self, _tier: Tier) -> BoxedStrategy<Case> {
        (
            prop_oneof![2 => Just(Ty::U8), 2 => Just(Ty::U32), 2 => Just(Ty::F32), 2 => Just(Ty::I64), 2 => Just(Ty::Sym), 1 => Just(Ty::Bytes3), 1 => Just(Ty::Floats3)],
            proptest::sample::select(vec![1usize, 5, 7, 16, 21, 32, 43]),
            proptest::collection::vec(op_strategy(), 0..40),
        )
            .prop_map(|(ty, cols, ops)| Case { ty, cols, ops })
            .boxed()
    }
    fn check(&self, case: &Case, _cx: &Cx) -> Verdict {
        match case.ty {
            Ty::U8 => dispatch_cols!(case, u8),
            Ty::U32 => dispatch_cols!(case, u32),
            Ty::F32 => dispatch_cols!(case, f32),
            Ty::I64 => dispatch_cols!(case, i64),
            Ty::Sym => dispatch_cols!(case, lightmotif::abc::Nucleotide),
            Ty::Bytes3 => dispatch_cols!(case, [u8; 3]),
            Ty::Floats3 => dispatch_cols!(case, [f32; 3]),
        }
    }
}

pub fn property() -> Property {
    Property {
        id: "C19",
        subs: vec![Box::new(Model)],
        assumptions: vec![
            "padding contents are not observable through the safe API and are not inspected (ravel / uninitialized are unsafe and not called)",
            "from_rows is only given rows of exactly C elements (anything else is a documented panic)",
            "alignment unit is 32 bytes on x86-64 (the 16-byte non-x86 variant cannot be executed here)",
        ],
    }
}
