//! C15 — motif file readers never panic or hang on malformed input (structured part).
//!
//! The byte-level, coverage-guided part lives in /verif/fuzz (target `c15_readers`).

use proptest::prelude::*;
use serde::{Deserialize, Serialize};

use crate::c14::*;
use crate::engine::*;
use crate::gen::*;

#[derive(Clone, Debug, Serialize, Deserialize)]
pub enum Mutation {
    /// keep only the first `permille`/1000 of the bytes
    Prefix(u16),
    /// keep the first n bytes exactly
    PrefixLen(usize),
    Substitute(usize, u8),
    Delete(usize),
    Insert(usize, u8),
    DuplicateLine(usize),
    /// line `i` (or, when the flag is set, the two lines `i`, `i+1`) repeated `n` more times in place:
    /// long runs of one terminator / header / row / blank line
    RepeatLines(usize, u16, bool),
    /// the leading position number of every matrix row line (a line starting with a digit) replaced by
    /// `start + index`, written out in full (values around and beyond the u32 range)
    RenumberRows(u64),
    RemoveLine(usize),
    SwapLines(usize),
    /// drop the last whitespace-separated token of a line (ragged matrix)
    RaggedLine(usize),
    /// append a token to a line
    LongerLine(usize),
    /// remove every line between a header-like line and the next one (header without matrix)
    DropMatrix(usize),
    NoFinalNewline,
    /// overwrite a byte with 0xFF / 0xC3 (invalid or truncated UTF-8)
    InvalidUtf8(usize, bool),
    /// insert a whole line before line i: a two-letter field code (TRANSFAC style), or a
    /// header-like / terminator-like line of one of the formats in an odd place
    InsertLine(usize, String),
    /// insert `kib` KiB of filler without any record separator at byte `at`: one long token, a run of numbers,
    /// of matrix-like lines, of blanks, of text lines (kind 0..=5) - inputs far larger than any internal buffer
    Filler(usize, u16, u8),
    /// the `which`-th numeric token of the first line at or after `line` that has one is replaced by a decimal with
    /// `int` integer digits and `frac` digits after the point, of which only the last `sig` are non-zero
    /// (0.000...0125): legal numbers of unusual lengths
    Decimal { line: usize, which: usize, int: u8, frac: u8, sig: u8 },
    /// replace everything by arbitrary bytes
    Arbitrary(Vec<u8>),
    Empty,
}

#[derive(Clone, Debug, Serialize, Deserialize)]
pub enum Source {
    Generated(FileModel),
    /// a file of the repository (path relative to /repo)
    Bundled(String),
}

#[derive(Clone, Debug, Serialize, Deserialize)]
pub struct Case {
    pub source: Source,
    pub mutations: Vec<Mutation>,
    /// reader to use; None = the reader of the source's own format
    pub reader: Option<(Format, Abc)>,
    pub chunkings: Vec<Chunking>,
}

const SMALL_FILES: &[(&str, Format)] = &[
    ("lightmotif-io/tests/MA0001.3.pfm", Format::Jaspar16),
    ("lightmotif-io/tests/MA0017.3.pfm", Format::Jaspar16),
    ("lightmotif-io/tests/M00005.transfac", Format::Transfac),
    ("lightmotif-io/tests/MA0001.2.transfac", Format::Transfac),
    ("lightmotif-io/tests/MX000001.transfac", Format::Transfac),
    ("lightmotif-io/tests/Cha4.uniprobe", Format::Uniprobe),
    ("lightmotif-io/tests/Gal4.uniprobe", Format::Uniprobe),
    ("lightmotif-io/tests/demo.uniprobe", Format::Uniprobe),
];

fn lines_of(b: &[u8]) -> Vec<Vec<u8>> {
    b.split_inclusive(|&c| c == b'\n').map(|l| l.to_vec()).collect()
}

fn apply(mut b: Vec<u8>, m: &Mutation) -> Vec<u8> {
    let n = b.len();
    match m {
        Mutation::Prefix(p) => {
            b.truncate(n * (*p as usize).min(1000) / 1000);
            b
        }
        Mutation::PrefixLen(k) => {
            b.truncate((*k).min(n));
            b
        }
        Mutation::Substitute(i, v) => {
            if n > 0 {
                b[i % n] = *v;
            }
            b
        }
        Mutation::Delete(i) => {
            if n > 0 {
                b.remove(i % n);
            }
            b
        }
        Mutation::Insert(i, v) => {
            b.insert(i % (n + 1), *v);
            b
        }
        Mutation::NoFinalNewline => {
            while matches!(b.last(), Some(b'\n') | Some(b'\r')) {
                b.pop();
            }
            b
        }
        Mutation::InvalidUtf8(i, lead) => {
            if n > 0 {
                b[i % n] = if *lead { 0xC3 } else { 0xFF };
            }
            b
        }
        Mutation::Arbitrary(v) => v.clone(),
        Mutation::Empty => Vec::new(),
        Mutation::Decimal { line, which, int, frac, sig } => {
            let mut ls = lines_of(&b);
            if ls.is_empty() {
                return b;
            }
            let is_num = |t: &str| !t.is_empty() && t.bytes().all(|c| c.is_ascii_digit() || c == b'.') && t.bytes().any(|c| c.is_ascii_digit());
            let start = line % ls.len();
            for off in 0..ls.len() {
                let i = (start + off) % ls.len();
                let text = String::from_utf8_lossy(&ls[i]).to_string();
                // tokens with their byte ranges (separated by blanks, tabs, brackets)
                let mut toks: Vec<(usize, usize)> = Vec::new();
                let mut at = None;
                for (p, ch) in text.char_indices() {
                    let sep = ch == ' ' || ch == '\t' || ch == '[' || ch == ']' || ch == '\n' || ch == '\r';
                    match (at, sep) {
                        (None, false) => at = Some(p),
                        (Some(a), true) => {
                            toks.push((a, p));
                            at = None;
                        }
                        _ => {}
                    }
                }
                if let Some(a) = at {
                    toks.push((a, text.len()));
                }
                let nums: Vec<(usize, usize)> = toks.into_iter().filter(|&(a, e)| is_num(&text[a..e])).collect();
                if nums.is_empty() {
                    continue;
                }
                let (a, e) = nums[which % nums.len()];
                let frac = *frac as usize;
                let sig = (*sig as usize).clamp(1, 6).min(frac.max(1));
                let mut num = String::new();
                for d in 0..(*int).max(1) {
                    num.push(if d == 0 && *int > 1 { '1' } else { '0' });
                }
                if frac > 0 {
                    num.push('.');
                    for _ in 0..frac - sig.min(frac) {
                        num.push('0');
                    }
                    num.push_str(&"125731"[..sig.min(frac)]);
                }
                ls[i] = format!("{}{}{}", &text[..a], num, &text[e..]).into_bytes();
                break;
            }
            ls.concat()
        }
        Mutation::Filler(at, kib, kind) => {
            let unit: &[u8] = match kind % 6 {
                0 => b"A",
                1 => b"12 ",
                2 => b"0 0 0 0\n",
                3 => b" ",
                4 => b"some text, no separator; ",
                _ => b"x\n",
            };
            // (one filler per input: a second one on top of megabytes is skipped)
            let want = if n > (3usize << 20) { 0 } else { *kib as usize * 1024 };
            let mut fill = Vec::with_capacity(want + unit.len());
            while fill.len() < want {
                fill.extend_from_slice(unit);
            }
            let at = at % (n + 1);
            b.splice(at..at, fill);
            b
        }
        Mutation::RepeatLines(i, times, two) => {
            let mut ls = lines_of(&b);
            if ls.is_empty() {
                return b;
            }
            let i = i % ls.len();
            let mut unit = ls[i].clone();
            if !unit.ends_with(b"\n") {
                unit.push(b'\n');
            }
            if *two && i + 1 < ls.len() {
                unit.extend_from_slice(&ls[i + 1]);
                if !unit.ends_with(b"\n") {
                    unit.push(b'\n');
                }
            }
            // (at most 4 MiB of repeated lines: a unit that is itself megabytes of filler is not repeated thousands of times)
            let times = (*times as usize).min(((4usize << 20) / unit.len().max(1)).max(1));
            let mut run = Vec::with_capacity(unit.len() * times);
            for _ in 0..times {
                run.extend_from_slice(&unit);
            }
            ls.insert(i, run);
            ls.concat()
        }
        Mutation::RenumberRows(start) => {
            let mut out = Vec::with_capacity(b.len() + 64);
            let mut idx = 0u64;
            for l in lines_of(&b) {
                if l.first().map_or(false, |c| c.is_ascii_digit()) {
                    let rest: Vec<u8> = l.iter().cloned().skip_while(|c| c.is_ascii_digit()).collect();
                    // numbers that each fit u32 wrap around inside u32 (4294967295, 0, 1, ...); larger starts are written as they are
                    let n = if *start <= u32::MAX as u64 { (*start as u32).wrapping_add(idx as u32) as u64 } else { start.wrapping_add(idx) };
                    out.extend_from_slice(n.to_string().as_bytes());
                    out.extend_from_slice(&rest);
                    idx += 1;
                } else {
                    idx = 0;
                    out.extend_from_slice(&l);
                }
            }
            out
        }
        Mutation::InsertLine(i, text) => {
            let mut ls = lines_of(&b);
            let i = i % (ls.len() + 1);
            ls.insert(i, format!("{}\n", text).into_bytes());
            ls.concat()
        }
        Mutation::DuplicateLine(i) | Mutation::RemoveLine(i) | Mutation::SwapLines(i) | Mutation::RaggedLine(i) | Mutation::LongerLine(i) | Mutation::DropMatrix(i) => {
            let mut ls = lines_of(&b);
            if ls.is_empty() {
                return b;
            }
            let i = i % ls.len();
            match m {
                Mutation::DuplicateLine(_) => {
                    let l = ls[i].clone();
                    ls.insert(i, l);
                }
                Mutation::RemoveLine(_) => {
                    ls.remove(i);
                }
                Mutation::SwapLines(_) => {
                    if i + 1 < ls.len() {
                        ls.swap(i, i + 1);
                    }
                }
                Mutation::RaggedLine(_) => {
                    // cut the last token (keeping the line ending and a closing bracket if any)
                    let l = &ls[i];
                    let text = String::from_utf8_lossy(l).to_string();
                    let body = text.trim_end_matches(['\n', '\r']);
                    let ending = &text[body.len()..];
                    let (core, close) = match body.trim_end().strip_suffix(']') {
                        Some(c) => (c.trim_end().to_string(), " ]"),
                        None => (body.trim_end().to_string(), ""),
                    };
                    if let Some(p) = core.rfind(|c: char| c == ' ' || c == '\t') {
                        ls[i] = format!("{}{}{}", &core[..p].trim_end(), close, ending).into_bytes();
                    }
                }
                Mutation::LongerLine(_) => {
                    let text = String::from_utf8_lossy(&ls[i]).to_string();
                    let body = text.trim_end_matches(['\n', '\r']);
                    let ending = &text[body.len()..];
                    ls[i] = match body.trim_end().strip_suffix(']') {
                        Some(c) => format!("{} 7 ]{}", c, ending),
                        None => format!("{}\t7{}", body, ending),
                    }
                    .into_bytes();
                }
                _ => {
                    // DropMatrix: from line i on, find a header-like line and delete what follows
                    // up to the next header-like line
                    let is_header = |l: &Vec<u8>| l.first() == Some(&b'>') || (!l.is_empty() && l.len() > 1 && l[1] != b':' && !l.starts_with(b"//") && !l[0].is_ascii_digit() && l.iter().any(|c| c.is_ascii_alphanumeric()) && !l.contains(&b'['));
                    if let Some(h) = (i..ls.len()).find(|&j| is_header(&ls[j])) {
                        let mut j = h + 1;
                        while j < ls.len() && !is_header(&ls[j]) {
                            ls.remove(j);
                        }
                        let _ = &mut j;
                    }
                }
            }
            ls.concat()
        }
    }
}

pub fn mutation_strategy() -> BoxedStrategy<Mutation> {
    prop_oneof![
        3 => (0u16..=1000).prop_map(Mutation::Prefix),
        4 => (any::<usize>(), any::<u8>()).prop_map(|(i, v)| Mutation::Substitute(i, v)),
        2 => (any::<usize>(), proptest::sample::select(vec![b'\n', b'>', b'[', b']', b' ', b'\t', b'/', b':', b'0', b'A', b'P', b'X', b'\r', 0u8, b'.', b'-', b'e'])).prop_map(|(i, v)| Mutation::Substitute(i, v)),
        3 => any::<usize>().prop_map(Mutation::Delete),
        2 => (any::<usize>(), any::<u8>()).prop_map(|(i, v)| Mutation::Insert(i, v)),
        2 => (any::<usize>(), proptest::sample::select(vec![b'\n', b'>', b'[', b']', b' ', b'\t', b'/'])).prop_map(|(i, v)| Mutation::Insert(i, v)),
        2 => any::<usize>().prop_map(Mutation::DuplicateLine),
        1 => prop_oneof![Just(u32::MAX as u64), Just(u32::MAX as u64 - 1), Just(u32::MAX as u64 - 3), Just(u32::MAX as u64 + 1), Just(i32::MAX as u64), Just(u64::MAX), Just(u64::MAX - 2), 0u64..=3, any::<u64>()].prop_map(Mutation::RenumberRows),
        1 => (any::<usize>(), prop_oneof![4 => 2u16..=60, 1 => 1000u16..=30000], any::<bool>()).prop_map(|(i, n, two)| Mutation::RepeatLines(i, n, two)),
        3 => any::<usize>().prop_map(Mutation::RemoveLine),
        2 => any::<usize>().prop_map(Mutation::SwapLines),
        3 => any::<usize>().prop_map(Mutation::RaggedLine),
        1 => any::<usize>().prop_map(Mutation::LongerLine),
        3 => any::<usize>().prop_map(Mutation::DropMatrix),
        3 => (any::<usize>(), (b'A'..=b'Z', b'A'..=b'Z', any::<bool>())).prop_map(|(i, (a, b, text))| {
            Mutation::InsertLine(i, format!("{}{}{}", a as char, b as char, if text { "  some text." } else { "" }))
        }),
        2 => (any::<usize>(), proptest::sample::select(vec![">", ">x y", "//", "VV  x", "XX", "P0", "PO  A", "P0  A  C  G  T", "01  1  2  3  4", "A:\t0.1", "A [ 1 2 ]", "RN  [1]", "RN  [1]; x.", "DT  01.02.2003 (created); x.", "RX  PUBMED: 1.", "CC", ""])).prop_map(|(i, t)| Mutation::InsertLine(i, t.to_string())),
        // a TRANSFAC column header with any number of symbols in any order, repeats included (more columns than the
        // alphabet has symbols, too)
        2 => (any::<usize>(), proptest::sample::select(vec!["P0", "PO"]), proptest::collection::vec(proptest::sample::select("ACGTNDEFHIKLMPQRSVWYX".chars().collect::<Vec<char>>()), 1..=30), any::<bool>())
            .prop_map(|(i, tag, syms, dna)| {
                let letters: Vec<String> = syms.iter().map(|c| if dna { "ACGTN".chars().nth((*c as usize) % 5).unwrap().to_string() } else { c.to_string() }).collect();
                Mutation::InsertLine(i, format!("{}  {}", tag, letters.join("  ")))
            }),
        2 => Just(Mutation::NoFinalNewline),
        2 => (any::<usize>(), any::<bool>()).prop_map(|(i, l)| Mutation::InvalidUtf8(i, l)),
        1 => proptest::collection::vec(any::<u8>(), 0..200).prop_map(Mutation::Arbitrary),
        1 => Just(Mutation::Empty),
        2 => (any::<usize>(), 0usize..8, 1u8..=3, prop_oneof![2 => 0u8..=12, 3 => 13u8..=45, 1 => 46u8..=120], 1u8..=6).prop_map(|(line, which, int, frac, sig)| Mutation::Decimal { line, which, int, frac, sig }),
        1 => (any::<usize>(), prop_oneof![3 => 1u16..=70, 2 => 1020u16..=1100, 1 => 2040u16..=2100], 0u8..6).prop_map(|(at, kib, kind)| Mutation::Filler(at, kib, kind)),
    ]
    .boxed()
}

pub struct Structured;

fn source_bytes(s: &Source) -> Result<(Vec<u8>, Format, Abc), Failure> {
    match s {
        Source::Generated(f) => Ok((write_file(f), f.format, f.abc)),
        Source::Bundled(p) => {
            let repo = std::env::var("VERIF_REPO").unwrap_or_else(|_| "/repo".into());
            let fmt = SMALL_FILES.iter().find(|f| f.0 == p).map(|f| f.1).unwrap_or(Format::Transfac);
            match std::fs::read(format!("{}/{}", repo, p)) {
                Ok(b) => Ok((b, fmt, Abc::Dna)),
                Err(e) => Err(Failure::new("bundled:missing-file", format!("{}: {}", p, e))),
            }
        }
    }
}

impl Sub for Structured {
    type Case = Case;
    fn name(&self) -> &'static str {
        "structured-mutations"
    }
    fn rule(&self) -> &'static str {
        "a valid generated file (C14's writers, 1..6 records) or one of the repository's small test files, with 1..3 mutations (prefix, byte substitution / deletion / insertion, line duplication / removal / swap, one or two lines repeated 2..60 or 1000..30000 times, matrix rows renumbered from values around 2^31 / 2^32 / 2^64, ragged or longer row, header without matrix, an inserted line (any two-letter field code, a TRANSFAC column header of 1..30 symbols with repeats, or a header / terminator / matrix-like line of one of the formats in an odd place), missing final newline, invalid UTF-8, a number replaced by a decimal of 0..120 fractional digits, arbitrary bytes, empty, 1..70 KiB / 1..1.07 MiB / 2..2.05 MiB of separator-free filler inserted somewhere), read by the reader of its own format (or, 1 in 5, another format's) under 2 generated chunkings; Reader::new and every next() must return - also the three further next() calls made after the first Err - (a panic fails; so does a call that burns 10 CPU seconds without returning) and a consumer stopping at the first Err / None must stop within len+2 calls; sweep = EVERY prefix of the repository's 8 small files and of a generated file per format, under chunk size 1 and a cursor; non-trivial = non-empty input on which the reader does not simply succeed as on the unmutated file"
    }
    fn cases(&self, tier: Tier) -> u64 {
        tier.pick(100_000, 3_000_000)
    }
    fn strategy(&self, _tier: Tier) -> BoxedStrategy<Case> {
        let files: Vec<String> = SMALL_FILES.iter().map(|f| f.0.to_string()).collect();
        let source = prop_oneof![4 => file_strategy(6).prop_map(Source::Generated), 1 => proptest::sample::select(files).prop_map(Source::Bundled)];
        let reader = prop_oneof![
            4 => Just(None),
            1 => (prop_oneof![Just(Format::Jaspar), Just(Format::Jaspar16), Just(Format::Transfac), Just(Format::Uniprobe)], prop_oneof![Just(Abc::Dna), Just(Abc::Protein)]).prop_map(Some),
        ];
        (source, proptest::collection::vec(mutation_strategy(), 1..=3), reader, proptest::collection::vec(chunking_strategy(), 2))
            .prop_map(|(source, mutations, reader, chunkings)| Case { source, mutations, reader, chunkings })
            .boxed()
    }
    fn sweep(&self, _tier: Tier) -> Vec<Case> {
        let mut out = Vec::new();
        let repo = std::env::var("VERIF_REPO").unwrap_or_else(|_| "/repo".into());
        for (p, _) in SMALL_FILES {
            let n = std::fs::read(format!("{}/{}", repo, p)).map(|b| b.len()).unwrap_or(0);
            for k in 0..=n {
                out.push(Case { source: Source::Bundled(p.to_string()), mutations: vec![Mutation::PrefixLen(k)], reader: None, chunkings: vec![Chunking::Fixed(1), Chunking::Whole] });
            }
        }
        // one fixed generated file per format, every prefix
        for (fi, format) in [Format::Jaspar, Format::Jaspar16, Format::Transfac, Format::Uniprobe].into_iter().enumerate() {
            let rec = |i: u64| RecModel {
                id: format!("M{}", i),
                accession: Some(format!("AC{}", i)),
                name: Some("name".into()),
                description: Some("some text".into()),
                symbols: vec![0, 1, 3, 2],
                tokens: if format == Format::Uniprobe {
                    vec![vec!["0.250".into(), "0.100".into()], vec!["0.250".into(), "0.200".into()], vec!["0.250".into(), "0.300".into()], vec!["0.250".into(), "0.400".into()]]
                } else {
                    vec![vec!["1".into(), "20".into()], vec!["3".into(), "0".into()], vec!["5".into(), "7".into()], vec!["11".into(), "2".into()]]
                },
                layout: i + fi as u64,
            };
            let file = FileModel { format, abc: Abc::Dna, records: vec![rec(1), rec(2)], crlf: fi % 2 == 1, version_header: true, blank_before: 0, blank_after: 0 };
            let n = write_file(&file).len();
            for k in 0..=n {
                out.push(Case { source: Source::Generated(file.clone()), mutations: vec![Mutation::PrefixLen(k)], reader: None, chunkings: vec![Chunking::Fixed(1), Chunking::Whole] });
            }
        }
        out
    }
    fn check(&self, case: &Case, _cx: &Cx) -> Verdict {
        let (orig, fmt, abc) = match source_bytes(&case.source) {
            Ok(x) => x,
            Err(f) => return Verdict::Fail(f),
        };
        let mut bytes = orig.clone();
        for m in &case.mutations {
            bytes = apply(bytes, m);
        }
        let (rfmt, rabc) = case.reader.unwrap_or((fmt, abc));
        let rabc = if rfmt == Format::Jaspar { Abc::Dna } else { rabc };
        let fname = format!("{:?}", rfmt).to_lowercase();
        let mut info = CaseInfo::new();
        info.class(match rfmt {
            Format::Jaspar => "reader:jaspar",
            Format::Jaspar16 => "reader:jaspar16",
            Format::Transfac => "reader:transfac",
            Format::Uniprobe => "reader:uniprobe",
        });
        for m in &case.mutations {
            info.class(match m {
                Mutation::Prefix(_) | Mutation::PrefixLen(_) => "mut:prefix",
                Mutation::Substitute(..) => "mut:substitute",
                Mutation::Delete(_) => "mut:delete",
                Mutation::Insert(..) => "mut:insert",
                Mutation::DuplicateLine(_) => "mut:dup-line",
                Mutation::RenumberRows(_) => "mut:rows-renumbered(around-2^32)",
                Mutation::RepeatLines(_, n, _) => {
                    if *n >= 1000 {
                        "mut:line-repeated>=1000x"
                    } else {
                        "mut:line-repeated"
                    }
                }
                Mutation::RemoveLine(_) => "mut:remove-line",
                Mutation::SwapLines(_) => "mut:swap-lines",
                Mutation::RaggedLine(_) => "mut:ragged-row",
                Mutation::LongerLine(_) => "mut:longer-row",
                Mutation::DropMatrix(_) => "mut:header-without-matrix",
                Mutation::InsertLine(..) => "mut:insert-line",
                Mutation::NoFinalNewline => "mut:no-final-newline",
                Mutation::InvalidUtf8(..) => "mut:invalid-utf8",
                Mutation::Arbitrary(_) => "mut:arbitrary",
                Mutation::Decimal { frac, .. } => {
                    if *frac >= 13 {
                        "mut:decimal-with-13..120-fractional-digits"
                    } else {
                        "mut:decimal"
                    }
                }
                Mutation::Filler(_, kib, _) => {
                    if *kib >= 1024 {
                        "mut:filler>=1MiB"
                    } else {
                        "mut:filler"
                    }
                }
                Mutation::Empty => "mut:empty",
            });
        }
        info.class_if(case.reader.map_or(false, |r| r.0 != fmt), "foreign-format-reader");
        info.class_if(bytes.is_empty(), "empty-input");
        // what the unmutated file gives (for the non-triviality rule only)
        let cap = bytes.len() + 2;
        let base = if bytes != orig && (rfmt, rabc) == (fmt, abc) { Some(read_all(rfmt, rabc, open(&orig, &Chunking::Whole), orig.len() + 2)) } else { None };
        for c in case.chunkings.iter() {
            // the readers run on a helper thread under a CPU-time budget: a call that never returns
            // is a violation of this property, not a reason to stop the whole run as inconclusive
            let (b2, c2) = (bytes.clone(), c.clone());
            let got = match bounded_cpu(move || read_all(rfmt, rabc, open(&b2, &c2), cap)) {
                Bounded::Done(g) => g,
                Bounded::Panicked(loc, msg) => return Verdict::Fail(Failure::new(panic_sig(&loc, &msg), format!("panicked at {}: {}", loc, msg))),
                Bounded::Hung(cpu) => {
                    return Verdict::Fail(Failure::new(
                        format!("{}:call-does-not-return", fname),
                        format!("{} bytes under {:?}: Reader::new / next() spent {:.1} CPU seconds without returning (normal cost: microseconds)", bytes.len(), c, cpu),
                    ))
                }
            };
            info.comparisons += got.calls as u64;
            if got.runaway {
                return Verdict::Fail(Failure::new(
                    format!("{}:does-not-terminate", fname),
                    format!("{} bytes under {:?}: {} next() calls returned records without reaching an error or the end of input", bytes.len(), c, got.calls),
                ));
            }
            if let Some(b) = &base {
                if got.error.is_some() || got.records != b.records {
                    info.nontrivial = !bytes.is_empty();
                }
            } else if got.error.is_some() {
                info.nontrivial = !bytes.is_empty();
            }
            info.class_if(got.error.is_some(), "reader-returned-error");
        }
        Verdict::Pass(info)
    }
}

pub fn property() -> Property {
    Property {
        id: "C15",
        subs: vec![Box::new(Structured)],
        assumptions: vec![
            "the whole run happens in a child process (main.rs ISOLATED): a fatal signal - e.g. the stack overflow of an unbounded recursion on a long run of lines - kills the child only; the parent then replays the cases the shards were working on, one per child process, and reports the one that dies again (signature process-died:stack-overflow / signal-N)",
            "a panic anywhere in Reader::new or Iterator::next is a failure; a call that never returns is recognised by the CPU time its thread consumes (10 CPU seconds on an input of a few KB, whose normal cost is microseconds; 3 s once one such event was seen, so that shrinking stays affordable) - CPU time of that thread, not wall-clock time, so machine load cannot cause it; a call blocked without consuming CPU ends in the global watchdog (exit 2, inconclusive)",
            "termination is that of a consumer which stops at the first Err or None: at most len+2 calls; after the first Err up to three more requests are made, which must return (anything) without panicking",
            "this is the structured half of C15; the byte-level half is the libFuzzer target fuzz/fuzz_targets/c15_readers.rs",
        ],
    }
}
