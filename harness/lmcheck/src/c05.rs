//! C05 — encoding accepts exactly the alphabet and is identical on every backend.

use std::str::FromStr;

use lightmotif::abc::{Alphabet, Symbol};
use lightmotif::err::InvalidSymbol;
use lightmotif::pli::{Encode, Pipeline};
use lightmotif::seq::EncodedSequence;
use proptest::prelude::*;
use serde::{Deserialize, Serialize};

use crate::engine::*;
use crate::gen::*;

#[derive(Clone, Debug, Serialize, Deserialize)]
pub struct Case {
    pub abc: Abc,
    /// valid text as symbol indices
    pub base: SeqSpec,
    /// (position, byte) substitutions applied in order (position taken modulo the length)
    pub inject: Vec<(usize, u8)>,
    /// (position, code point): afterwards the byte at the position (modulo the length) is replaced by the UTF-8
    /// encoding of the character - text that stays valid UTF-8 and so reaches `str::parse` / `from_str`
    #[serde(default)]
    pub chars: Vec<(usize, u32)>,
    /// (start, byte, length): before the single substitutions, `length` consecutive bytes from `start` (modulo the
    /// length of the text) are set to `byte` - runs of one (valid or invalid) byte with their ends on and around
    /// the 16 / 32-byte block boundaries (homopolymers, masked and soft-masked regions, gaps)
    #[serde(default)]
    pub fill: Vec<(usize, u8, usize)>,
}

pub struct Bytes;

fn other_letters(abc: Abc) -> &'static [u8] {
    match abc {
        Abc::Dna => b"DEFHIKLMPQRSVWYXUBZJO",
        Abc::Protein => b"BJOUZ",
    }
}

fn byte_strategy(abc: Abc) -> BoxedStrategy<u8> {
    let letters = abc.letters().to_vec();
    let lower: Vec<u8> = letters.iter().map(|c| c.to_ascii_lowercase()).collect();
    let others = other_letters(abc).to_vec();
    prop_oneof![
        4 => any::<u8>(),
        2 => proptest::sample::select(lower),
        2 => proptest::sample::select(others),
        1 => Just(0u8),
        1 => 0x80u8..=0xff,
        1 => proptest::sample::select(letters),
        1 => proptest::sample::select(vec![b' ', b'\n', b'-', b'*', b'@', b'[', b'`', b'{', 0x7f]),
    ]
    .boxed()
}

/// Positions chosen relative to the 16/32-byte blocks and the scalar tail.
fn pos_strategy() -> BoxedStrategy<usize> {
    prop_oneof![
        3 => any::<usize>(),
        2 => (0usize..8, prop_oneof![Just(0usize), Just(1), Just(15), Just(16), Just(17), Just(31)]).prop_map(|(b, o)| b * 32 + o),
        1 => Just(0usize),
        1 => Just(usize::MAX),
        // the last bytes before / first bytes after a multiple of 4096 (256 vectors of 16 bytes, 128 / 256 of 32):
        // where a per-chunk or 8-bit vector counter of a long text would wrap
        2 => (1usize..=4, 0usize..=70).prop_map(|(k, d)| (k * 4096 + 3).saturating_sub(d)),
    ]
    .boxed()
}

fn enc_len(tier: Tier) -> BoxedStrategy<usize> {
    let hi = tier.pick(200usize, 5000usize);
    prop_oneof![
        1 => 0usize..=2,
        4 => 0usize..=70,
        3 => (0usize..=8, 0usize..=3, 0usize..=3).prop_map(|(k, a, b)| (k * 16 + a).saturating_sub(b)),
        2 => 70usize..=hi,
        // long texts: around multiples of 4096 bytes (vector-count boundaries of the SIMD encoders)
        1 => (1usize..=4, 0usize..=40, 0usize..=3).prop_map(|(k, a, b)| (k * 4096 + a).saturating_sub(b)),
    ]
    .boxed()
}

type Outcome = Result<Vec<u8>, char>;

fn conv<A: Alphabet>(r: Result<Vec<A::Symbol>, InvalidSymbol>) -> Outcome {
    match r {
        Ok(v) => Ok(v.iter().map(|s| s.as_index() as u8).collect()),
        Err(InvalidSymbol(c)) => Err(c),
    }
}

fn conv_seq<A: Alphabet>(r: Result<EncodedSequence<A>, InvalidSymbol>) -> Outcome {
    match r {
        Ok(v) => Ok(v.iter().map(|s| s.as_index() as u8).collect()),
        Err(InvalidSymbol(c)) => Err(c),
    }
}

fn encode_all<A: Alphabet, P: Encode<A>>(name: &'static str, pli: &P, text: &[u8], out: &mut Vec<(&'static str, &'static str, Outcome)>) {
    out.push((name, "encode_raw", conv::<A>(pli.encode_raw(text))));
    out.push((name, "encode", conv_seq::<A>(pli.encode(text))));
    // a reused destination: every element starts as a symbol that is NOT the right one for its position; the
    // destination is once a whole vector and once a sub-slice starting 1..15 elements into a larger buffer
    // (a destination that is not 16-byte aligned)
    let syms = A::symbols();
    let wrong = |b: &u8| {
        let right = A::as_str().as_bytes().iter().position(|l| l == b).unwrap_or(0);
        syms[(right + 1) % syms.len()]
    };
    let mut dst: Vec<A::Symbol> = text.iter().map(wrong).collect();
    let r = pli.encode_into(text, &mut dst);
    out.push((name, "encode_into", conv::<A>(r.map(|_| dst))));
    let off = 1 + text.len() % 15;
    let mut big: Vec<A::Symbol> = vec![syms[0]; off];
    big.extend(text.iter().map(wrong));
    big.extend(std::iter::repeat(syms[1]).take(17));
    let r = pli.encode_into(text, &mut big[off..off + text.len()]);
    // the elements around the destination must be left alone
    let untouched = big[..off].iter().all(|s| s.as_index() == syms[0].as_index()) && big[off + text.len()..].iter().all(|s| s.as_index() == syms[1].as_index());
    out.push((name, "encode_into(sub-slice)", conv::<A>(r.map(|_| if untouched { big[off..off + text.len()].to_vec() } else { Vec::new() }))));
}

fn run<A: Alphabet>(case: &Case, text: &[u8], info: &mut CaseInfo) -> Option<Failure> {
    let letters = A::as_str().as_bytes();
    // model
    let expected: Outcome = match text.iter().find(|b| !letters.contains(b)) {
        Some(&b) => Err(b as char),
        None => Ok(text.iter().map(|b| letters.iter().position(|l| l == b).unwrap() as u8).collect()),
    };
    let mut outs: Vec<(&'static str, &'static str, Outcome)> = Vec::new();
    encode_all::<A, _>("generic", &Pipeline::<A, _>::generic(), text, &mut outs);
    encode_all::<A, _>("sse2", &Pipeline::<A, _>::sse2().unwrap(), text, &mut outs);
    encode_all::<A, _>("avx2", &Pipeline::<A, _>::avx2().unwrap(), text, &mut outs);
    for arm in ARMS {
        let _g = arm.force();
        let name = match arm {
            Arm::Generic => "dispatch[generic]",
            Arm::Sse2 => "dispatch[sse2]",
            Arm::Avx2 => "dispatch[avx2]",
        };
        encode_all::<A, _>(name, &Pipeline::<A, _>::dispatch(), text, &mut outs);
        outs.push((name, "EncodedSequence::encode", conv_seq::<A>(EncodedSequence::<A>::encode(text))));
        if let Ok(s) = std::str::from_utf8(text) {
            outs.push((name, "from_str", conv_seq::<A>(EncodedSequence::<A>::from_str(s))));
        }
    }
    for (name, entry, got) in &outs {
        info.comparisons += 1;
        if got != &expected {
            let kind = match (&expected, got) {
                (Ok(_), Err(_)) => "rejects-valid",
                (Err(_), Ok(_)) => "accepts-invalid",
                (Err(_), Err(_)) => "wrong-offending-char",
                (Ok(_), Ok(_)) => "wrong-symbols",
            };
            let show = |o: &Outcome| match o {
                Ok(v) => format!("Ok({} symbols)", v.len()),
                Err(c) => format!("Err(InvalidSymbol({:?}))", c),
            };
            return Some(Failure::new(
                format!("{}:{}:{}", name, entry, kind),
                format!("{} bytes: got {}, expected {} (first invalid byte at {:?})", text.len(), show(got), show(&expected), text.iter().position(|b| !letters.contains(b))),
            ));
        }
    }
    // displaying the result reproduces the input
    if expected.is_ok() {
        let seq = EncodedSequence::<A>::encode(text).unwrap();
        if seq.to_string().as_bytes() != text || seq.len() != text.len() {
            return Some(Failure::new("display:roundtrip", "to_string() does not reproduce the input".to_string()));
        }
        // "symbol i of the result" through every accessor of the encoded sequence (Index, iter(), IntoIterator,
        // AsRef<[Symbol]>), and the same sequence rebuilt from its symbols (new, From<Vec>, FromIterator) displays
        // the same text and compares equal
        let letters = A::as_str().as_bytes();
        let by_iter: Vec<A::Symbol> = seq.iter().copied().collect();
        let by_into: Vec<A::Symbol> = (&seq).into_iter().copied().collect();
        let by_ref: &[A::Symbol] = seq.as_ref();
        if by_iter.len() != text.len() || by_into.len() != text.len() || by_ref.len() != text.len() {
            return Some(Failure::new("symbols:count", format!("iter() {} / into_iter() {} / as_ref() {} symbols for {} bytes", by_iter.len(), by_into.len(), by_ref.len(), text.len())));
        }
        for (i, &b) in text.iter().enumerate() {
            for (what, s) in [("Index", seq[i]), ("iter", by_iter[i]), ("IntoIterator", by_into[i]), ("AsRef", by_ref[i])] {
                if letters.get(s.as_index()) != Some(&b) {
                    return Some(Failure::new("symbols:value", format!("{}: symbol {} is #{} but byte {} is {:?}", what, i, s.as_index(), i, b as char)));
                }
            }
        }
        let rebuilt = [
            ("new", EncodedSequence::<A>::new(by_iter.clone())),
            ("From<Vec>", EncodedSequence::<A>::from(by_iter.clone())),
            ("FromIterator", by_iter.iter().copied().collect::<EncodedSequence<A>>()),
            ("clone", seq.clone()),
        ];
        for (what, other) in rebuilt.iter() {
            if other.to_string().as_bytes() != text || !(seq == *other) || !(*other == by_iter) {
                return Some(Failure::new("symbols:rebuilt", format!("EncodedSequence::{} of the symbols displays {:?} or compares unequal", what, other.to_string())));
            }
        }
        if !text.is_empty() {
            let mut shorter = by_iter.clone();
            shorter.pop();
            if seq == shorter {
                return Some(Failure::new("symbols:eq", "the sequence compares equal to its own proper prefix".to_string()));
            }
        }
    }
    let _ = case;
    None
}

fn text_of_case(case: &Case) -> Vec<u8> {
    let idx = case.base.expand(case.abc.k());
    let mut text = text_of(case.abc, &idx);
    if !text.is_empty() {
        for &(start, b, len) in &case.fill {
            let n = text.len();
            let start = start % n;
            for x in text[start..(start + len).min(n)].iter_mut() {
                *x = b;
            }
        }
    }
    if !text.is_empty() {
        for &(p, b) in &case.inject {
            let n = text.len();
            text[p % n] = b;
        }
    }
    for &(p, cp) in &case.chars {
        if let (Some(c), false) = (char::from_u32(cp), text.is_empty()) {
            let at = p % text.len();
            // not in the middle of a character placed before
            if text[at] < 0x80 {
                let mut buf = [0u8; 4];
                let enc = c.encode_utf8(&mut buf).as_bytes().to_vec();
                text.splice(at..at + 1, enc);
            }
        }
    }
    text
}

impl Sub for Bytes {
    type Case = Case;
    fn name(&self) -> &'static str {
        "bytes"
    }
    fn rule(&self) -> &'static str {
        "valid text (both alphabets, lengths 0..200 quick / ..5000 thorough, biased to multiples of 16 +-3, plus texts around 1..4 x 4096 bytes) with 0-2 injected bytes from all 256 values (lower case, other alphabet's letters, NUL, >=0x80, punctuation) and, in a fifth of the cases, 1-2 whole non-ASCII characters (any scalar value; biased to code points whose low byte is a letter of the alphabet) so that the text stays valid UTF-8 and reaches from_str, at positions relative to the 16/32-byte blocks and the scalar tail, and in two fifths of the cases 1-4 runs of one valid or invalid byte whose starts and lengths sit on and around multiples of 16; encode / encode_raw / encode_into (into a reused destination holding a wrong symbol at every position, a whole vector and a sub-slice at offset 1..15 of a larger buffer) on generic, sse2, avx2 and the dispatcher forced to each arm, EncodedSequence::encode, from_str, Display, the symbol accessors of the encoded sequence (Index, iter, IntoIterator, AsRef) and the sequence rebuilt from its symbols (new, From<Vec>, FromIterator, clone; ==) compared with the model (ok iff all bytes in the alphabet; first offending byte reported); sweep = every length n <= 40 (quick) / 100 (thorough) x every position x every byte value, plus every two-byte character and every basic-plane character whose low byte is a letter inside a 5- and a 45-byte text, plus texts of 1 and 2 MiB with two invalid bytes (the later one near the start of its half / quarter), plus texts of 8192..16389 (thorough: ..32785 and 2 MiB) bytes with an invalid byte at each of the 68 positions around every multiple of 4096, alone and followed by a second one; non-trivial = n > 32 (vector path taken)"
    }
    fn cases(&self, tier: Tier) -> u64 {
        tier.pick(150_000, 4_000_000)
    }
    fn strategy(&self, tier: Tier) -> BoxedStrategy<Case> {
        abc_strategy()
            .prop_flat_map(move |abc| {
                let k = abc.k();
                (
                    Just(abc),
                    enc_len(tier).prop_flat_map(move |n| {
                        prop_oneof![
                            3 => proptest::collection::vec(0u8..k as u8, n).prop_map(SeqSpec::Explicit),
                            2 => any::<u64>().prop_map(move |seed| SeqSpec::Seeded { len: n, seed, wild_pct: 3 }),
                        ]
                    }),
                    proptest::collection::vec((pos_strategy(), byte_strategy(abc)), 0..=2),
                )
            })
            .prop_flat_map(|(abc, base, inject)| {
                let letters = abc.letters().to_vec();
                // characters outside ASCII: any scalar value, and those whose low byte is a letter of the alphabet
                let cp = prop_oneof![
                    3 => (0x80u32..=0x7ff),
                    2 => (0x800u32..=0xffff),
                    1 => (0x10000u32..=0x10ffff),
                    4 => (1u32..=0xff, proptest::sample::select(letters)).prop_map(|(hi, lo)| (hi << 8) | lo as u32),
                    1 => (1u32..=0x10, 0u32..=0xff, proptest::sample::select(abc.letters().to_vec())).prop_map(|(pl, hi, lo)| (pl << 16) | (hi << 8) | lo as u32),
                ];
                let chars = prop_oneof![4 => Just(Vec::new()), 1 => proptest::collection::vec((pos_strategy(), cp), 1..=2)];
                // runs of one byte: starts and lengths on and around multiples of 16
                let edge = (0usize..=12, prop_oneof![3 => Just(0usize), 1 => Just(1usize), 1 => Just(15usize), 1 => Just(17usize)]).prop_map(|(k, o)| k * 16 + o);
                let run_len = prop_oneof![3 => (1usize..=6).prop_map(|k| k * 16), 2 => (1usize..=6, 0usize..=2, 0usize..=2).prop_map(|(k, a, b)| (k * 16 + a).saturating_sub(b)), 1 => 1usize..=40];
                let fill = prop_oneof![3 => Just(Vec::new()), 2 => proptest::collection::vec((edge, byte_strategy(abc), run_len), 1..=4)];
                (Just(abc), Just(base), Just(inject), chars, fill)
            })
            .prop_map(|(abc, base, mut inject, chars, fill)| {
                if !chars.is_empty() {
                    // keep the text valid UTF-8: single injected bytes stay within ASCII
                    for x in inject.iter_mut() {
                        x.1 &= 0x7f;
                    }
                }
                Case { abc, base, inject, chars, fill }
            })
            .boxed()
    }
    fn sweep(&self, tier: Tier) -> Vec<Case> {
        let max = tier.pick(40usize, 100usize);
        let mut out = Vec::new();
        for abc in [Abc::Dna, Abc::Protein] {
            for n in 1..=max {
                for p in 0..n {
                    for b in 0..=255u8 {
                        out.push(Case { abc, base: SeqSpec::Seeded { len: n, seed: n as u64, wild_pct: 5 }, inject: vec![(p, b)], chars: Vec::new(), fill: Vec::new() });
                    }
                }
            }
        }
        // long texts: one invalid byte at each of the last 66 positions before (and 2 after) every multiple of
        // 4096 bytes, then the same with a second invalid byte at the end of the text
        let longs: &[usize] = if tier == Tier::Thorough { &[4096, 8192, 8224, 12288 + 31, 16384 + 5, 32768 + 17] } else { &[8192, 8224, 16384 + 5] };
        for abc in [Abc::Dna, Abc::Protein] {
            for &n in longs {
                for k in 1..=n / 4096 {
                    for d in 0..68usize {
                        let p = k * 4096 + 1 - d;
                        if p >= n {
                            continue;
                        }
                        for b in [b'x', 0xffu8] {
                            out.push(Case { abc, base: SeqSpec::Seeded { len: n, seed: (n + k) as u64, wild_pct: 2 }, inject: vec![(p, b)], chars: Vec::new(), fill: Vec::new() });
                        }
                        out.push(Case { abc, base: SeqSpec::Seeded { len: n, seed: (n + k) as u64, wild_pct: 2 }, inject: vec![(n - 1, b'y'), (p, b'x')], chars: Vec::new(), fill: Vec::new() });
                    }
                }
            }
        }
        // text that is valid UTF-8 but not ASCII (the `str` routes): every two-byte character, and every character of
        // the basic plane whose low byte is a letter of the alphabet, in a short and in a vector-length text
        for abc in [Abc::Dna, Abc::Protein] {
            let letters = abc.letters();
            for cp in 0x80u32..=0xffff {
                if cp < 0x800 || letters.contains(&((cp & 0xff) as u8)) {
                    for (n, p) in [(5usize, 2usize), (45, 37)] {
                        out.push(Case { abc, base: SeqSpec::Seeded { len: n, seed: cp as u64, wild_pct: 5 }, inject: Vec::new(), chars: vec![(p, cp)], fill: Vec::new() });
                    }
                }
            }
        }
        // texts of a megabyte and more with TWO invalid bytes, the later one much closer to the start of its half /
        // quarter of the text than the earlier one is to the start of the text: an encoder that splits long inputs
        // into parts worked on in lockstep must still report the first one by position
        for abc in [Abc::Dna, Abc::Protein] {
            for n in [(1usize << 20) + 70, (1usize << 21) + 33] {
                for parts in [2usize, 4] {
                    let part = n / parts / 32 * 32;
                    for (deep, shallow) in [(part - 40, 7usize), (part / 2 + 5, 32 * 3 + 1), (4096 + 17, 0)] {
                        for k in 1..parts {
                            out.push(Case { abc, base: SeqSpec::Seeded { len: n, seed: (n + k) as u64, wild_pct: 2 }, inject: vec![(deep, b'x'), (k * part + shallow, b'y')], chars: Vec::new(), fill: Vec::new() });
                        }
                    }
                }
            }
        }
        if tier == Tier::Thorough {
            // 65536 vectors of 32 bytes: a 16-bit vector counter
            let n = (1usize << 21) + 70;
            for p in [(1usize << 21) - 1, (1usize << 21) - 33, (1usize << 21) + 1, (1usize << 20) - 1] {
                out.push(Case { abc: Abc::Dna, base: SeqSpec::Seeded { len: n, seed: 21, wild_pct: 2 }, inject: vec![(p, b'x')], chars: Vec::new(), fill: Vec::new() });
            }
        }
        out
    }
    fn check(&self, case: &Case, _cx: &Cx) -> Verdict {
        // an allocation of exactly the text's length: under C06's sanitised / guard-allocator builds of this
        // property a read past the last byte of the caller's text leaves the block
        let text: Box<[u8]> = text_of_case(case).into_boxed_slice();
        let mut info = CaseInfo::new();
        let letters = case.abc.letters();
        let n = text.len();
        let bad: Vec<usize> = (0..n).filter(|&i| !letters.contains(&text[i])).collect();
        info.nontrivial = n > 32;
        info.class_if(case.abc == Abc::Dna, "dna");
        info.class_if(case.abc == Abc::Protein, "protein");
        info.class_if(bad.is_empty(), "valid");
        info.class_if(bad.len() >= 2, "two-invalid-bytes");
        info.class_if(n >= 4096, "text>=4096-bytes");
        info.class_if(n >= (1 << 20), "text>=1MiB");
        info.class_if((0..n / 16).any(|k| { let h = &text[k * 16..k * 16 + 16]; h.iter().all(|&b| b == h[0]) }), "a-16-byte-block-of-one-byte");
        info.class_if((0..n / 32).any(|k| { let (a, b) = (&text[k * 32..k * 32 + 16], &text[k * 32 + 16..k * 32 + 32]); a.iter().all(|&x| x == a[0]) && b.iter().all(|&x| x == b[0]) && a[0] != b[0] }), "a-32-byte-block-of-two-uniform-halves");
        info.class_if(text.iter().any(|&b| b >= 0x80) && std::str::from_utf8(&text).is_ok(), "valid-utf8-with-non-ascii-character(str-routes-run)");
        info.class_if(bad.first().map_or(false, |&p| p >= 4000 && (p % 4096 >= 4096 - 64)), "first-invalid-byte-in-last-64-before-a-4096-multiple");
        if let Some(&p) = bad.first() {
            let tail_start = n / 32 * 32;
            info.class_if(p >= tail_start, "invalid-in-avx2-tail");
            info.class_if(p < tail_start && p % 32 == 0, "invalid-first-lane");
            info.class_if(p < tail_start && p % 32 == 31, "invalid-last-lane");
            info.class_if(p % 16 == 0 || p % 16 == 15, "invalid-at-16-block-boundary");
            info.class_if(text[p] >= 0x80, "invalid-high-byte");
            info.class_if(text[p].is_ascii_lowercase(), "invalid-lower-case");
        }
        let f = with_abc!(case.abc, A => run::<A>(case, &text, &mut info));
        match f {
            Some(f) => Verdict::Fail(f),
            None => Verdict::Pass(info),
        }
    }
}

pub fn property() -> Property {
    Property {
        id: "C05",
        subs: vec![Box::new(Bytes)],
        assumptions: vec![
            "the contents of an encode_into destination after an error are unspecified and not inspected",
            "the offending character of a byte >= 0x80 is the byte's Latin-1 code point (what `u8 as char` gives on every backend)",
            "NEON encoder not executed on this host",
        ],
    }
}
