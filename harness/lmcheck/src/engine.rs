//! The generated-input engine shared by every property check.
//!
//! One property = several *sub-checks*. A sub-check is a case type (serde
//! round-trippable, so that a shrunk failure *is* the replay file), a proptest
//! strategy producing cases, an optional deterministic sweep, and a pure check
//! function `case -> Verdict` containing the oracle. The engine shards the
//! generated tier over worker threads (seed of shard k is a pure function of
//! VERIF_SEED, property, sub-check and k), catches panics, lets proptest shrink,
//! writes the replay file, matches failures against the committed known
//! findings and writes the evidence file.

use std::any::Any;
use std::cell::RefCell;
use std::collections::hash_map::DefaultHasher;
use std::collections::{BTreeMap, HashSet};
use std::fmt::Debug;
use std::hash::{Hash, Hasher};
use std::panic::{catch_unwind, AssertUnwindSafe};
use std::path::{Path, PathBuf};
use std::sync::atomic::{AtomicBool, AtomicU64, Ordering};
use std::sync::Mutex;
use std::time::Instant;

use proptest::strategy::BoxedStrategy;
use proptest::test_runner::{Config, RngSeed, TestCaseError, TestError, TestRunner};
use serde::de::DeserializeOwned;
use serde::{Deserialize, Serialize};
use serde_json::{json, Value};

// --- configuration -----------------------------------------------------------

#[derive(Clone, Copy, Debug, PartialEq, Eq)]
pub enum Tier {
    Quick,
    Thorough,
}

impl Tier {
    pub fn name(self) -> &'static str {
        match self {
            Tier::Quick => "quick",
            Tier::Thorough => "thorough",
        }
    }
    /// Pick a work amount by tier.
    pub fn pick<T>(self, quick: T, thorough: T) -> T {
        match self {
            Tier::Quick => quick,
            Tier::Thorough => thorough,
        }
    }
}

#[derive(Clone, Debug)]
pub struct RunCfg {
    pub tier: Tier,
    pub seed: u64,
    pub threads: usize,
    pub verif_dir: PathBuf,
    /// Multiplier on the number of generated cases (VERIF_SCALE, default 1).
    pub scale: f64,
}

/// Context handed to every check function.
#[derive(Clone, Debug, Default)]
pub struct Cx {
    /// Signatures of *open* known findings that were confirmed to still fail on
    /// this tree; their input classes are excluded by construction.
    pub excluded: Vec<String>,
}

impl Cx {
    pub fn is_excluded(&self, sig: &str) -> bool {
        self.excluded.iter().any(|s| s == sig)
    }
}

// --- verdicts ----------------------------------------------------------------

#[derive(Clone, Debug, Default)]
pub struct CaseInfo {
    /// Whether the case is non-trivial by the property's stated rule.
    pub nontrivial: bool,
    /// Class labels for the evidence histogram.
    pub classes: Vec<&'static str>,
    /// How many elementary comparisons against the oracle were made.
    pub comparisons: u64,
}

impl CaseInfo {
    pub fn new() -> Self {
        Self::default()
    }
    pub fn class(&mut self, c: &'static str) {
        if !self.classes.contains(&c) {
            self.classes.push(c);
        }
    }
    pub fn class_if(&mut self, cond: bool, c: &'static str) {
        if cond {
            self.class(c)
        }
    }
}

#[derive(Clone, Debug)]
pub struct Failure {
    /// Stable signature: entry point / backend / input class or panic site.
    pub sig: String,
    /// Human readable description of what was observed vs expected.
    pub msg: String,
}

impl Failure {
    pub fn new(sig: impl Into<String>, msg: impl Into<String>) -> Self {
        Self {
            sig: sig.into(),
            msg: msg.into(),
        }
    }
}

#[derive(Clone, Debug)]
pub enum Verdict {
    Pass(CaseInfo),
    /// The case falls in the input class of an open known finding (counted).
    Skip(String),
    Fail(Failure),
}

/// `fail!(sig, fmt...)` returns a failing verdict from a check function.
#[macro_export]
macro_rules! fail {
    ($sig:expr, $($arg:tt)*) => {
        return $crate::engine::Verdict::Fail($crate::engine::Failure::new($sig, format!($($arg)*)))
    };
}

// --- panic capture -----------------------------------------------------------

thread_local! {
    static LAST_PANIC: RefCell<Option<(String, String)>> = const { RefCell::new(None) };
    static QUIET: RefCell<bool> = const { RefCell::new(false) };
}

pub fn install_panic_hook() {
    let default = std::panic::take_hook();
    std::panic::set_hook(Box::new(move |info| {
        let quiet = QUIET.with(|q| *q.borrow());
        let loc = info
            .location()
            .map(|l| format!("{}:{}", l.file(), l.line()))
            .unwrap_or_else(|| "?".into());
        let msg = payload_str(info.payload());
        LAST_PANIC.with(|p| *p.borrow_mut() = Some((loc, msg)));
        if !quiet {
            default(info);
        }
    }));
}

fn payload_str(p: &(dyn Any + Send)) -> String {
    if let Some(s) = p.downcast_ref::<&str>() {
        s.to_string()
    } else if let Some(s) = p.downcast_ref::<String>() {
        s.clone()
    } else {
        "<non-string panic payload>".into()
    }
}

/// Normalise a panic into a stable signature: source file (relative to the
/// repository) and the message with digits collapsed, never a line number.
pub fn panic_sig(loc: &str, msg: &str) -> String {
    let file = loc.rsplit_once(':').map(|x| x.0).unwrap_or(loc);
    let file = file.strip_prefix("/repo/").unwrap_or(file);
    let file = match file.find("/.cargo/registry/src/") {
        Some(i) => {
            let rest = &file[i + "/.cargo/registry/src/".len()..];
            rest.split_once('/').map(|x| x.1).unwrap_or(rest)
        }
        None => file,
    };
    let mut m = String::new();
    let mut last_digit = false;
    for ch in msg.chars().take(80) {
        if ch.is_ascii_digit() {
            if !last_digit {
                m.push('#');
            }
            last_digit = true;
        } else {
            m.push(ch);
            last_digit = false;
        }
    }
    format!("panic@{}: {}", file, m)
}

/// Run `f` under catch_unwind *inside* a check (the hook stays quiet); on panic
/// returns the (location, message) recorded by the hook.
pub fn catch_inner<T, F: FnOnce() -> T>(f: F) -> Result<T, (String, String)> {
    LAST_PANIC.with(|p| *p.borrow_mut() = None);
    match catch_unwind(AssertUnwindSafe(f)) {
        Ok(v) => Ok(v),
        Err(e) => Err(LAST_PANIC.with(|p| p.borrow_mut().take()).unwrap_or_else(|| ("?".into(), payload_str(&*e)))),
    }
}

/// Put the SSE control/status register of this thread back to its power-on value.
pub fn reset_fp_env() {
    #[cfg(target_arch = "x86_64")]
    unsafe {
        let csr: u32 = 0x1F80;
        std::arch::asm!("ldmxcsr [{}]", in(reg) &csr, options(nostack, readonly));
    }
}

/// Run a check function, turning a panic into a failing verdict.
pub fn guarded<F: FnOnce() -> Verdict>(f: F) -> Verdict {
    // every case starts from the default floating-point environment of a thread (round to nearest, subnormals
    // honoured): a control register left changed by an earlier case must not decide this one, or a failure
    // would not reproduce from its replay file
    reset_fp_env();
    QUIET.with(|q| *q.borrow_mut() = true);
    LAST_PANIC.with(|p| *p.borrow_mut() = None);
    let r = catch_unwind(AssertUnwindSafe(f));
    QUIET.with(|q| *q.borrow_mut() = false);
    // a forced dispatcher arm must never leak into the next case
    lightmotif::pli::verif_hooks::force_backend(None);
    match r {
        Ok(v) => v,
        Err(e) => {
            let (loc, msg) = LAST_PANIC
                .with(|p| p.borrow_mut().take())
                .unwrap_or_else(|| ("?".into(), payload_str(&*e)));
            Verdict::Fail(Failure::new(
                panic_sig(&loc, &msg),
                format!("panicked at {}: {}", loc, msg),
            ))
        }
    }
}

// --- calls that may never return ----------------------------------------------

/// Result of [`bounded_cpu`].
pub enum Bounded<T> {
    Done(T),
    /// (location, message) of a panic on the helper thread
    Panicked(String, String),
    /// the helper thread consumed this many CPU seconds without returning
    Hung(f64),
}

static HANG_SEEN: AtomicBool = AtomicBool::new(false);

/// CPU seconds (user + system) consumed so far by thread `tid` of this process.
fn thread_cpu_secs(tid: u64) -> Option<f64> {
    let s = std::fs::read_to_string(format!("/proc/self/task/{tid}/stat")).ok()?;
    // the command name (field 2) may contain spaces: fields are counted after the last ')'
    let rest = &s[s.rfind(')')? + 1..];
    let f: Vec<&str> = rest.split_whitespace().collect();
    // rest starts at field 3 (state); utime = field 14, stime = field 15; USER_HZ is 100 on Linux
    let ticks = f.get(11)?.parse::<u64>().ok()? + f.get(12)?.parse::<u64>().ok()?;
    Some(ticks as f64 / 100.0)
}

/// Run `f` on a helper thread and wait for it; if the helper *consumes* more CPU time than the
/// budget (10 s for the first such event of the process, 3 s afterwards, so that shrinking stays
/// affordable) without returning, give up on it and report `Hung`. The budget is CPU time of that
/// one thread, not wall-clock time, so a loaded machine cannot turn a slow case into a failure;
/// it is meant for calls whose normal cost is microseconds (a ratio of 10^6). A stuck helper
/// cannot be killed: it keeps spinning until the process exits.
pub fn bounded_cpu<T: Send + 'static, F: FnOnce() -> T + Send + 'static>(f: F) -> Bounded<T> {
    use std::sync::mpsc::{channel, RecvTimeoutError};
    let (tx, rx) = channel::<Result<T, (String, String)>>();
    let job: Job = Box::new(move || {
        let r = catch_inner(f);
        lightmotif::pli::verif_hooks::force_backend(None);
        let _ = tx.send(r);
    });
    let tid = HELPER.with(|h| {
        let mut h = h.borrow_mut();
        if h.is_none() {
            *h = Some(Helper::start());
        }
        let hp = h.as_ref().unwrap();
        let _ = hp.jobs.send(job);
        hp.tid
    });
    let mut wait = std::time::Duration::from_millis(250);
    let cpu0 = std::cell::Cell::new(None::<f64>);
    loop {
        match rx.recv_timeout(wait) {
            Ok(Ok(v)) => return Bounded::Done(v),
            Ok(Err((loc, msg))) => return Bounded::Panicked(loc, msg),
            Err(RecvTimeoutError::Disconnected) => {
                HELPER.with(|h| *h.borrow_mut() = None);
                return Bounded::Panicked("?".into(), "helper thread died without a result".into());
            }
            Err(RecvTimeoutError::Timeout) => {
                let budget = if HANG_SEEN.load(Ordering::Relaxed) { 3.0 } else { 10.0 };
                if let Some(cpu) = thread_cpu_secs(tid) {
                    // the helper is reused from case to case: count from the first look at this job
                    // (at most 250 ms of this job's own time are not counted)
                    let start = match cpu0.get() {
                        Some(c) => c,
                        None => {
                            cpu0.set(Some(cpu));
                            cpu
                        }
                    };
                    if cpu - start >= budget {
                        HANG_SEEN.store(true, Ordering::Relaxed);
                        // abandon the stuck helper; the next call starts a new one
                        HELPER.with(|h| *h.borrow_mut() = None);
                        return Bounded::Hung(cpu - start);
                    }
                }
                wait = std::time::Duration::from_millis(100);
            }
        }
    }
}

type Job = Box<dyn FnOnce() + Send + 'static>;

/// One helper thread per checking thread, reused from case to case.
struct Helper {
    tid: u64,
    jobs: std::sync::mpsc::Sender<Job>,
}

impl Helper {
    fn start() -> Helper {
        let (jobs, rx) = std::sync::mpsc::channel::<Job>();
        let (tx_tid, rx_tid) = std::sync::mpsc::channel::<u64>();
        std::thread::spawn(move || {
            let tid = std::fs::read_link("/proc/thread-self").ok().and_then(|p| p.file_name().and_then(|n| n.to_str().and_then(|n| n.parse::<u64>().ok()))).unwrap_or(0);
            let _ = tx_tid.send(tid);
            QUIET.with(|q| *q.borrow_mut() = true);
            while let Ok(job) = rx.recv() {
                job();
            }
        });
        Helper { tid: rx_tid.recv().unwrap_or(0), jobs }
    }
}

thread_local! {
    static HELPER: RefCell<Option<Helper>> = const { RefCell::new(None) };
}

// --- sub-check trait ---------------------------------------------------------

pub trait Sub: Sync + Send {
    type Case: Serialize + DeserializeOwned + Debug + Clone + Send + Sync + 'static;

    fn name(&self) -> &'static str;
    /// What the cases are and what makes one non-trivial (goes to evidence).
    fn rule(&self) -> &'static str;
    /// Number of generated cases for the tier (before VERIF_SCALE).
    fn cases(&self, tier: Tier) -> u64;
    fn strategy(&self, tier: Tier) -> BoxedStrategy<Self::Case>;
    /// Deterministic sweep, enumerated in addition to the random cases.
    fn sweep(&self, _tier: Tier) -> Vec<Self::Case> {
        Vec::new()
    }
    fn check(&self, case: &Self::Case, cx: &Cx) -> Verdict;
}

/// Object-safe view of a sub-check.
pub trait DynSub: Sync + Send {
    fn name(&self) -> &'static str;
    fn run(&self, prop: &str, cfg: &RunCfg, cx: &Cx) -> SubReport;
    fn replay(&self, case: &Value, cx: &Cx) -> Result<Verdict, String>;
}

#[derive(Debug, Default)]
pub struct SubReport {
    pub name: String,
    pub rule: String,
    pub random_cases: u64,
    pub sweep_cases: u64,
    pub comparisons: u64,
    pub nontrivial: u64,
    pub distinct_nontrivial: u64,
    pub skipped: BTreeMap<String, u64>,
    pub classes: BTreeMap<String, u64>,
    pub samples: Vec<Value>,
    /// (failure, shrunk case as JSON)
    pub failures: Vec<(Failure, Value)>,
}

#[derive(Default)]
struct Stats {
    cases: u64,
    comparisons: u64,
    nontrivial: u64,
    nontrivial_keys: HashSet<u64>,
    skipped: BTreeMap<String, u64>,
    classes: BTreeMap<&'static str, u64>,
    samples: Vec<Value>,
}

impl Stats {
    fn record<C: Serialize>(&mut self, case: &C, v: &Verdict, want_samples: usize) {
        self.cases += 1;
        match v {
            Verdict::Pass(info) => {
                self.comparisons += info.comparisons;
                for c in &info.classes {
                    *self.classes.entry(c).or_default() += 1;
                }
                if info.nontrivial {
                    self.nontrivial += 1;
                    let js = serde_json::to_string(case).unwrap_or_default();
                    let mut h = DefaultHasher::new();
                    js.hash(&mut h);
                    let fresh = self.nontrivial_keys.insert(h.finish());
                    if fresh && self.samples.len() < want_samples {
                        if let Ok(v) = serde_json::from_str::<Value>(&js) {
                            self.samples.push(abbreviate(&v));
                        }
                    }
                }
            }
            Verdict::Skip(sig) => {
                *self.skipped.entry(sig.clone()).or_default() += 1;
            }
            Verdict::Fail(_) => {}
        }
    }
}

/// Shorten long arrays / strings so that samples stay readable.
pub fn abbreviate(v: &Value) -> Value {
    match v {
        Value::Array(a) => {
            if a.len() > 24 {
                let mut out: Vec<Value> = a.iter().take(12).map(abbreviate).collect();
                out.push(Value::String(format!("... {} more", a.len() - 12)));
                Value::Array(out)
            } else {
                Value::Array(a.iter().map(abbreviate).collect())
            }
        }
        Value::Object(o) => Value::Object(o.iter().map(|(k, v)| (k.clone(), abbreviate(v))).collect()),
        Value::String(s) if s.len() > 160 => {
            let mut cut = 120;
            while !s.is_char_boundary(cut) {
                cut -= 1;
            }
            Value::String(format!("{}... ({} bytes)", &s[..cut], s.len()))
        }
        other => other.clone(),
    }
}

pub fn splitmix64(mut x: u64) -> u64 {
    x = x.wrapping_add(0x9E3779B97F4A7C15);
    let mut z = x;
    z = (z ^ (z >> 30)).wrapping_mul(0xBF58476D1CE4E5B9);
    z = (z ^ (z >> 27)).wrapping_mul(0x94D049BB133111EB);
    z ^ (z >> 31)
}

fn str_hash(s: &str) -> u64 {
    // FNV-1a: stable across runs and Rust versions (DefaultHasher is not promised to be)
    let mut h: u64 = 0xcbf29ce484222325;
    for b in s.bytes() {
        h ^= b as u64;
        h = h.wrapping_mul(0x100000001b3);
    }
    h
}

pub fn shard_seed(seed: u64, prop: &str, sub: &str, shard: u64) -> u64 {
    splitmix64(splitmix64(seed ^ str_hash(prop)) ^ splitmix64(str_hash(sub) ^ shard.wrapping_mul(0x9E37)))
}

impl<S: Sub> DynSub for S {
    fn name(&self) -> &'static str {
        Sub::name(self)
    }

    fn replay(&self, case: &Value, cx: &Cx) -> Result<Verdict, String> {
        let c: S::Case = serde_json::from_value(case.clone()).map_err(|e| format!("cannot decode case: {e}"))?;
        Ok(guarded(|| self.check(&c, cx)))
    }

    fn run(&self, prop: &str, cfg: &RunCfg, cx: &Cx) -> SubReport {
        let tier = cfg.tier;
        let total = ((self.cases(tier) as f64) * cfg.scale).ceil() as u64;
        let threads = cfg.threads.max(1) as u64;
        let sweep = self.sweep(tier);
        let stop = AtomicBool::new(false);
        let merged: Mutex<(Stats, Stats)> = Mutex::new((Stats::default(), Stats::default()));
        let failures: Mutex<Vec<(Failure, Value)>> = Mutex::new(Vec::new());
        let next_sweep = AtomicU64::new(0);

        std::thread::scope(|scope| {
            for shard in 0..threads {
                let merged = &merged;
                let failures = &failures;
                let stop = &stop;
                let sweep = &sweep;
                let next_sweep = &next_sweep;
                scope.spawn(move || {
                    // ---- deterministic sweep (work-stealing by chunks) ----
                    let mut sw = Stats::default();
                    let sweep_trace = std::env::var("LMCHECK_TRACE").ok().map(|d| PathBuf::from(d).join(format!("{}-{}-{}.json", prop, Sub::name(self), shard)));
                    loop {
                        let start = next_sweep.fetch_add(64, Ordering::Relaxed) as usize;
                        if start >= sweep.len() || stop.load(Ordering::Relaxed) {
                            break;
                        }
                        for case in &sweep[start..(start + 64).min(sweep.len())] {
                            if let Some(t) = &sweep_trace {
                                let rf = ReplayFile { property: prop.to_string(), sub: Sub::name(self).to_string(), signature: String::new(), message: String::new(), case: serde_json::to_value(case).unwrap_or(Value::Null) };
                                let _ = std::fs::write(t, serde_json::to_string(&rf).unwrap_or_default());
                            }
                            let v = guarded(|| self.check(case, cx));
                            if let Verdict::Fail(f) = &v {
                                let mut fl = failures.lock().unwrap();
                                if !fl.iter().any(|(g, _)| g.sig == f.sig) {
                                    fl.push((f.clone(), serde_json::to_value(case).unwrap_or(Value::Null)));
                                }
                                continue;
                            }
                            sw.record(case, &v, if shard == 0 { 2 } else { 0 });
                        }
                    }
                    // ---- random cases ----
                    let n = total / threads + if shard < total % threads { 1 } else { 0 };
                    let mut st = Stats::default();
                    if n > 0 {
                        let config = Config {
                            cases: n.min(u32::MAX as u64) as u32,
                            failure_persistence: None,
                            rng_seed: RngSeed::Fixed(shard_seed(cfg.seed, prop, Sub::name(self), shard)),
                            max_shrink_iters: 4096,
                            max_shrink_time: 120_000,
                            max_global_rejects: 65536,
                            verbose: 0,
                            ..Config::default()
                        };
                        let mut runner = TestRunner::new(config);
                        let strat = self.strategy(tier);
                        let failed = RefCell::new(false);
                        let stc = RefCell::new(&mut st);
                        let trace = std::env::var("LMCHECK_TRACE").ok().map(|d| PathBuf::from(d).join(format!("{}-{}-{}.json", prop, Sub::name(self), shard)));
                        let res = runner.run(&strat, |case| {
                            if stop.load(Ordering::Relaxed) && !*failed.borrow() {
                                // another shard already failed: finish quickly
                                return Ok(());
                            }
                            if let Some(t) = &trace {
                                // the process may die inside the check (sanitizer abort): leave the case behind
                                let rf = ReplayFile { property: prop.to_string(), sub: Sub::name(self).to_string(), signature: String::new(), message: String::new(), case: serde_json::to_value(&case).unwrap_or(Value::Null) };
                                let _ = std::fs::write(t, serde_json::to_string(&rf).unwrap_or_default());
                            }
                            let v = guarded(|| self.check(&case, cx));
                            match &v {
                                Verdict::Fail(f) => {
                                    *failed.borrow_mut() = true;
                                    Err(TestCaseError::fail(f.sig.clone()))
                                }
                                _ => {
                                    if !*failed.borrow() {
                                        stc.borrow_mut().record(&case, &v, if shard == 0 { 4 } else { 0 });
                                    }
                                    Ok(())
                                }
                            }
                        });
                        match res {
                            Ok(()) => {}
                            Err(TestError::Fail(_, value)) => {
                                stop.store(true, Ordering::Relaxed);
                                // re-run the shrunk case to obtain its final failure
                                let f = match guarded(|| self.check(&value, cx)) {
                                    Verdict::Fail(f) => f,
                                    _ => Failure::new("flaky", "shrunk case did not fail again"),
                                };
                                let mut fl = failures.lock().unwrap();
                                if !fl.iter().any(|(g, _)| g.sig == f.sig) {
                                    fl.push((f, serde_json::to_value(&value).unwrap_or(Value::Null)));
                                }
                            }
                            Err(TestError::Abort(reason)) => {
                                let mut fl = failures.lock().unwrap();
                                fl.push((
                                    Failure::new("harness-abort", format!("proptest aborted: {reason}")),
                                    Value::Null,
                                ));
                            }
                        }
                    }
                    let mut m = merged.lock().unwrap();
                    merge(&mut m.0, st);
                    merge(&mut m.1, sw);
                });
            }
        });

        let (st, sw) = merged.into_inner().unwrap();
        let mut rep = SubReport {
            name: Sub::name(self).to_string(),
            rule: self.rule().to_string(),
            random_cases: st.cases,
            sweep_cases: sw.cases,
            comparisons: st.comparisons + sw.comparisons,
            nontrivial: st.nontrivial + sw.nontrivial,
            ..Default::default()
        };
        let mut keys = st.nontrivial_keys;
        keys.extend(sw.nontrivial_keys);
        rep.distinct_nontrivial = keys.len() as u64;
        for (k, v) in st.skipped.into_iter().chain(sw.skipped) {
            *rep.skipped.entry(k).or_default() += v;
        }
        for (k, v) in st.classes.into_iter().chain(sw.classes) {
            *rep.classes.entry(k.to_string()).or_default() += v;
        }
        rep.samples = st.samples.into_iter().chain(sw.samples).take(5).collect();
        rep.failures = failures.into_inner().unwrap();
        rep
    }
}

fn merge(into: &mut Stats, from: Stats) {
    into.cases += from.cases;
    into.comparisons += from.comparisons;
    into.nontrivial += from.nontrivial;
    into.nontrivial_keys.extend(from.nontrivial_keys);
    for (k, v) in from.skipped {
        *into.skipped.entry(k).or_default() += v;
    }
    for (k, v) in from.classes {
        *into.classes.entry(k).or_default() += v;
    }
    for s in from.samples {
        if into.samples.len() < 6 {
            into.samples.push(s);
        }
    }
}

// --- known findings ----------------------------------------------------------

#[derive(Clone, Debug, Deserialize, Serialize)]
pub struct KnownFinding {
    pub property: String,
    pub id: String,
    /// `open` (recorded, not repaired) or `fixed` (repaired by a `fix:` commit; suppresses nothing)
    pub status: String,
    /// exact failure signatures (entry point + backend + input class) this finding produces
    pub signatures: Vec<String>,
    pub what: String,
    #[serde(default)]
    pub commit: Option<String>,
    /// replay files (relative to /verif) that reproduce it
    #[serde(default)]
    pub regress: Vec<String>,
}

impl KnownFinding {
    fn matches_open(&self, prop: &str, sig: &str) -> bool {
        self.property == prop && self.status == "open" && self.signatures.iter().any(|s| s == sig)
    }
}

pub fn load_known(verif: &Path) -> Vec<KnownFinding> {
    let p = verif.join("known_findings.json");
    match std::fs::read_to_string(&p) {
        Ok(s) => {
            let v: Value = serde_json::from_str(&s).expect("known_findings.json must be valid JSON");
            serde_json::from_value(v["findings"].clone()).expect("known_findings.json: bad `findings`")
        }
        Err(_) => Vec::new(),
    }
}

// --- property driver ---------------------------------------------------------

pub struct Property {
    pub id: &'static str,
    pub subs: Vec<Box<dyn DynSub>>,
    pub assumptions: Vec<&'static str>,
}

#[derive(Serialize, Deserialize, Debug, Clone)]
pub struct ReplayFile {
    pub property: String,
    pub sub: String,
    #[serde(default)]
    pub signature: String,
    #[serde(default)]
    pub message: String,
    pub case: Value,
}

fn write_replay(dir: &Path, prop: &str, sub: &str, f: &Failure, case: &Value) -> PathBuf {
    let d = dir.join("replays").join(prop);
    let _ = std::fs::create_dir_all(&d);
    let body = ReplayFile {
        property: prop.to_string(),
        sub: sub.to_string(),
        signature: f.sig.clone(),
        message: f.msg.clone(),
        case: case.clone(),
    };
    let js = serde_json::to_string_pretty(&body).unwrap();
    let mut h = DefaultHasher::new();
    js.hash(&mut h);
    let p = d.join(format!("{}-{:016x}.json", sub, h.finish()));
    let _ = std::fs::write(&p, js);
    p
}

/// Run one property: replay tier, then generated tier; write evidence; return exit code.
pub fn run_property(prop: &Property, cfg: &RunCfg) -> i32 {
    let t0 = Instant::now();
    let known = load_known(&cfg.verif_dir);
    let mut violations = 0u32;
    let mut cx = Cx::default();
    let mut known_lines: Vec<String> = Vec::new();

    // ---- replay tier: committed regression inputs --------------------------
    let mut replayed = 0u64;
    let regress_dir = cfg.verif_dir.join("regress").join(prop.id);
    let mut files: Vec<PathBuf> = std::fs::read_dir(&regress_dir)
        .map(|rd| rd.filter_map(|e| e.ok().map(|e| e.path())).collect())
        .unwrap_or_default();
    files.retain(|p| p.extension().map(|e| e == "json").unwrap_or(false));
    files.sort();
    for file in &files {
        let rf: ReplayFile = match std::fs::read_to_string(file).ok().and_then(|s| serde_json::from_str(&s).ok()) {
            Some(r) => r,
            None => {
                eprintln!("warning: unreadable regression file {}", file.display());
                continue;
            }
        };
        let Some(sub) = prop.subs.iter().find(|s| s.name() == rf.sub) else {
            eprintln!("warning: {} names unknown sub-check {}", file.display(), rf.sub);
            continue;
        };
        replayed += 1;
        match sub.replay(&rf.case, &Cx::default()) {
            Ok(Verdict::Fail(f)) => {
                if let Some(k) = known.iter().find(|k| k.matches_open(prop.id, &f.sig)) {
                    let line = format!("KNOWN-FINDING: property={} {} [{}]", prop.id, k.what, k.id);
                    if !known_lines.contains(&line) {
                        known_lines.push(line);
                    }
                    for s in &k.signatures {
                        if !cx.excluded.contains(s) {
                            cx.excluded.push(s.clone());
                        }
                    }
                } else {
                    println!("regression input fails: {} :: {}", f.sig, f.msg);
                    println!("VIOLATION property={} replay={}", prop.id, file.display());
                    violations += 1;
                }
            }
            Ok(_) => {}
            Err(e) => eprintln!("warning: {}: {}", file.display(), e),
        }
    }
    for l in &known_lines {
        println!("{l}");
    }

    // ---- generated tier ----------------------------------------------------
    let mut reports = Vec::new();
    for sub in &prop.subs {
        let rep = sub.run(prop.id, cfg, &cx);
        for (f, case) in &rep.failures {
            let path = write_replay(&cfg.verif_dir, prop.id, &rep.name, f, case);
            if let Some(k) = known.iter().find(|k| k.matches_open(prop.id, &f.sig)) {
                let line = format!("KNOWN-FINDING: property={} {} [{}]", prop.id, k.what, k.id);
                if !known_lines.contains(&line) {
                    println!("{line}");
                    known_lines.push(line);
                }
            } else {
                println!("[{}/{}] {} :: {}", prop.id, rep.name, f.sig, f.msg);
                println!("VIOLATION property={} replay={}", prop.id, path.display());
                violations += 1;
            }
        }
        eprintln!(
            "[{}/{}] random={} sweep={} nontrivial={} distinct={} skipped={:?} failures={} ({:.1}s)",
            prop.id,
            rep.name,
            rep.random_cases,
            rep.sweep_cases,
            rep.nontrivial,
            rep.distinct_nontrivial,
            rep.skipped,
            rep.failures.len(),
            t0.elapsed().as_secs_f64()
        );
        reports.push(rep);
    }

    write_evidence(prop, cfg, &reports, replayed, &known_lines, violations, t0.elapsed().as_secs_f64());
    if violations > 0 {
        1
    } else {
        0
    }
}

fn write_evidence(
    prop: &Property,
    cfg: &RunCfg,
    reports: &[SubReport],
    replayed: u64,
    known_lines: &[String],
    violations: u32,
    wall: f64,
) {
    let evaluations: u64 = reports.iter().map(|r| r.random_cases + r.sweep_cases).sum::<u64>() + replayed;
    let distinct: u64 = reports.iter().map(|r| r.distinct_nontrivial).sum();
    let rule = reports
        .iter()
        .map(|r| format!("[{}] {}", r.name, r.rule))
        .collect::<Vec<_>>()
        .join(" || ");
    let mut samples = Vec::new();
    for r in reports {
        for s in r.samples.iter().take(3) {
            samples.push(json!({"sub": r.name, "case": s}));
        }
    }
    if samples.is_empty() {
        samples.push(json!({"note": "no non-trivial case was generated in this run"}));
    }
    let subs: Vec<Value> = reports
        .iter()
        .map(|r| {
            json!({
                "sub": r.name,
                "random_cases": r.random_cases,
                "sweep_cases": r.sweep_cases,
                "oracle_comparisons": r.comparisons,
                "nontrivial": r.nontrivial,
                "distinct_nontrivial": r.distinct_nontrivial,
                "excluded_known_finding_cases": r.skipped,
                "classes": r.classes,
                "failures": r.failures.iter().map(|(f, _)| f.sig.clone()).collect::<Vec<_>>(),
            })
        })
        .collect();
    let ev = json!({
        "property_id": prop.id,
        "tier": cfg.tier.name(),
        "seed": cfg.seed,
        "level": "exploration",
        "coverage": {
            "evaluations": evaluations,
            "distinct_nontrivial": distinct,
            "rule": rule,
            "samples": samples,
            "regression_inputs_replayed": replayed,
            "sub_checks": subs,
            "known_findings_reported": known_lines,
            "exhaustive": false,
            "threads": cfg.threads,
        },
        "assumptions": prop.assumptions,
        "wall_s": (wall * 1000.0).round() / 1000.0,
        "violations": violations,
    });
    let dir = cfg.verif_dir.join("evidence");
    let _ = std::fs::create_dir_all(&dir);
    let path = dir.join(format!("{}.json", prop.id));
    // second pass of the same property (the build with debug assertions and overflow checks): added to the
    // evidence the first pass wrote, never replacing it
    if std::env::var("LMCHECK_SECOND_PASS").is_ok() {
        if let Some(mut first) = std::fs::read_to_string(&path).ok().and_then(|t| serde_json::from_str::<Value>(&t).ok()) {
            let total = first["coverage"]["evaluations"].as_u64().unwrap_or(0) + evaluations;
            first["coverage"]["evaluations"] = json!(total);
            first["coverage"]["checked_build_pass"] = json!({
                "what": "the same generators (a quarter of the cases, other shard seeds excluded: same seeds) run against the library compiled with debug assertions and arithmetic overflow checks - what `cargo test` or a build without --release gives",
                "evaluations": evaluations,
                "distinct_nontrivial": distinct,
                "sub_checks": ev["coverage"]["sub_checks"],
                "wall_s": ev["wall_s"],
            });
            first["coverage"]["rule"] = json!(format!("{} || [checked-build pass] the same sub-checks at a quarter of the cases with debug assertions and overflow checks compiled in", first["coverage"]["rule"].as_str().unwrap_or("")));
            first["violations"] = json!(first["violations"].as_u64().unwrap_or(0) + violations as u64);
            first["wall_s"] = json!(first["wall_s"].as_f64().unwrap_or(0.0) + ev["wall_s"].as_f64().unwrap_or(0.0));
            std::fs::write(&path, serde_json::to_string_pretty(&first).unwrap()).expect("cannot write evidence");
            return;
        }
    }
    std::fs::write(&path, serde_json::to_string_pretty(&ev).unwrap()).expect("cannot write evidence");
}

/// Replay one file through the plain check function. Returns the exit code.
pub fn replay_file(props: &[Property], file: &Path) -> i32 {
    let rf: ReplayFile = match std::fs::read_to_string(file)
        .map_err(|e| e.to_string())
        .and_then(|s| serde_json::from_str(&s).map_err(|e| e.to_string()))
    {
        Ok(r) => r,
        Err(e) => {
            eprintln!("cannot read replay file {}: {}", file.display(), e);
            return 2;
        }
    };
    let Some(prop) = props.iter().find(|p| p.id == rf.property) else {
        eprintln!("unknown property {}", rf.property);
        return 2;
    };
    let Some(sub) = prop.subs.iter().find(|s| s.name() == rf.sub) else {
        eprintln!("unknown sub-check {}", rf.sub);
        return 2;
    };
    match sub.replay(&rf.case, &Cx::default()) {
        Ok(Verdict::Fail(f)) => {
            println!("{} :: {}", f.sig, f.msg);
            println!("VIOLATION property={} replay={}", prop.id, file.display());
            1
        }
        Ok(Verdict::Pass(info)) => {
            println!("PASS property={} sub={} classes={:?}", prop.id, rf.sub, info.classes);
            0
        }
        Ok(Verdict::Skip(s)) => {
            println!("SKIPPED ({s})");
            0
        }
        Err(e) => {
            eprintln!("{e}");
            2
        }
    }
}

/// Watchdog: exit 2 (inconclusive) after `secs`, or when RSS exceeds `max_rss_mb`.
pub fn start_watchdog(secs: u64, max_rss_mb: u64) {
    std::thread::spawn(move || {
        let t0 = Instant::now();
        loop {
            std::thread::sleep(std::time::Duration::from_millis(500));
            if t0.elapsed().as_secs() > secs {
                eprintln!("INCONCLUSIVE: watchdog expired after {secs}s (not a violation)");
                std::process::exit(2);
            }
            if let Ok(s) = std::fs::read_to_string("/proc/self/statm") {
                if let Some(pages) = s.split_whitespace().nth(1).and_then(|x| x.parse::<u64>().ok()) {
                    if pages * 4096 / (1 << 20) > max_rss_mb {
                        eprintln!("INCONCLUSIVE: resident set above {max_rss_mb} MiB (not a violation)");
                        std::process::exit(2);
                    }
                }
            }
        }
    });
}
