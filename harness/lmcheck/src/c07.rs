//! C07 — maximum, arg-maximum and thresholding of striped scores match their definitions.

use lightmotif::abc::{Alphabet, Dna, Protein};
use lightmotif::dense::{MatrixCoordinates, MatrixElement};
use lightmotif::num::{PositiveLength, U16, U32};
use lightmotif::pli::{Maximum, Pipeline, Score, Stripe, Threshold};
use lightmotif::scores::{Scores, StripedScores};
use lightmotif::seq::StripedSequence;
use proptest::prelude::*;
use serde::{Deserialize, Serialize};

use crate::engine::*;
use crate::gen::*;

// ---------------------------------------------------------------------------
// Sub-check 1: synthetic score matrices built cell by cell
// ---------------------------------------------------------------------------

#[derive(Clone, Copy, Debug, PartialEq, Eq, Serialize, Deserialize)]
pub enum Dtype {
    F32,
    U8,
}

#[derive(Clone, Debug, Serialize, Deserialize)]
pub enum Cells {
    /// rows x C values written out
    Explicit(Vec<Vec<Fl>>),
    /// pseudo-random cells: `lo + (stream % span)`, optionally quantised to few values
    Seeded { rows: usize, seed: u64, lo: f32, span: u32, quant: u32 },
    /// constant `base` everywhere with `value` at the listed (row, col) cells
    Spikes { rows: usize, base: Fl, value: Fl, at: Vec<(usize, usize)> },
}

#[derive(Clone, Debug, Serialize, Deserialize)]
pub enum Thr {
    /// value of the cell with this (flattened, wrapped) index
    Cell(usize),
    /// midpoint between that cell and the next larger distinct value
    Between(usize),
    BelowMin,
    AboveMax,
    Value(Fl),
}

#[derive(Clone, Debug, Serialize, Deserialize)]
pub struct SynCase {
    pub dtype: Dtype,
    pub wide: bool, // 32 columns (else 16)
    pub cells: Cells,
    pub thr: Thr,
    /// the score buffer is a reused one: it first held this many MORE rows, every cell set to the
    /// largest value of the element type, and was then resized down to the rows of this case
    #[serde(default)]
    pub prior_rows: usize,
    /// the buffer's `max_index` (number of scored positions) is this much smaller than rows x C: the last
    /// cells are "padding" positions - they are cells of the matrix all the same
    #[serde(default)]
    pub short_by: usize,
    /// 0 = the column count given by `wide`; 1 = 48 columns, 2 = 64 columns (generic and SSE2 backends only);
    /// 3..=7 = 1, 4, 7, 12, 20 columns (generic pipeline only: the layouts of targets without a vector unit, and
    /// column counts that are not a multiple of 8)
    #[serde(default)]
    pub wider: u8,
    /// f32 only: every finite cell (and the threshold) is replaced by a subnormal number of the same sign and
    /// the same order (bit pattern = 4|x| rounded down, at most 2^20): values a comparison that flushes
    /// subnormals to zero cannot tell from 0
    #[serde(default)]
    pub tiny: bool,
    /// what this thread did just before: 0 nothing; 1 / 2 / 4 scored a sequence SHORTER than the motif (no valid
    /// position) through the AVX2 pipeline / the dispatcher on its AVX2 arm / the AVX2 protein pipeline; 3 scored
    /// an empty row range; 5 scored a short sequence through SSE2; 6 scored an ordinary sequence through AVX2
    #[serde(default)]
    pub before: u8,
}

fn expand_cells(c: &Cells, cols: usize) -> Vec<Vec<f32>> {
    match c {
        Cells::Explicit(v) => v
            .iter()
            .map(|r| (0..cols).map(|j| r.get(j).map(|x| x.0).unwrap_or(0.0)).collect())
            .collect(),
        Cells::Seeded { rows, seed, lo, span, quant } => {
            let mut s = *seed;
            (0..*rows)
                .map(|_| {
                    (0..cols)
                        .map(|_| {
                            s = splitmix64(s);
                            let r = (s >> 20) as u32 % (*span).max(1);
                            let r = if *quant > 1 { r / quant * quant } else { r };
                            lo + r as f32 * 0.25
                        })
                        .collect()
                })
                .collect()
        }
        Cells::Spikes { rows, base, value, at } => {
            let mut m = vec![vec![base.0; cols]; *rows];
            if *rows > 0 {
                for &(r, c) in at {
                    m[r % rows][c % cols] = value.0;
                }
            }
            m
        }
    }
}

pub struct Synthetic;

fn fl_strategy() -> BoxedStrategy<Fl> {
    prop_oneof![
        10 => (-300.0f32..300.0).prop_map(Fl),
        2 => (-40i32..40).prop_map(|x| Fl(x as f32)),
        1 => Just(Fl(f32::NEG_INFINITY)),
        1 => Just(Fl(f32::INFINITY)),
        1 => Just(Fl(0.0)),
        1 => Just(Fl(255.0)),
    ]
    .boxed()
}

fn rows_strategy(tier: Tier) -> BoxedStrategy<usize> {
    let mut alts: Vec<(u32, BoxedStrategy<usize>)> =
        vec![(1, Just(0usize).boxed()), (3, (1usize..=3).boxed()), (8, (1usize..=70).boxed()), (2, (70usize..=600).boxed())];
    if tier == Tier::Thorough {
        alts.push((1, (600usize..=5000).boxed()));
    }
    proptest::strategy::Union::new_weighted(alts).boxed()
}

fn syn_strategy(tier: Tier) -> BoxedStrategy<SynCase> {
    let cells = rows_strategy(tier).prop_flat_map(|rows| {
        let explicit = proptest::collection::vec(proptest::collection::vec(fl_strategy(), 32), rows.min(6)).prop_map(Cells::Explicit).boxed();
        let seeded = (
            any::<u64>(),
            prop_oneof![Just(-2000.0f32), Just(-500.0f32), Just(-20.0f32), Just(0.0f32), Just(3.0f32)],
            prop_oneof![Just(1u32), Just(8u32), Just(80u32), Just(1000u32), Just(4000u32)],
            prop_oneof![Just(1u32), Just(4u32), Just(64u32)],
        )
            .prop_map(move |(seed, lo, span, quant)| Cells::Seeded { rows, seed, lo, span, quant })
            .boxed();
        let spikes = (fl_strategy(), fl_strategy(), proptest::collection::vec((0usize..rows.max(1), 0usize..32), 1..=3))
            .prop_map(move |(base, value, at)| Cells::Spikes { rows, base, value, at })
            .boxed();
        prop_oneof![2 => explicit, 5 => seeded, 5 => spikes]
    });
    let thr = prop_oneof![
        4 => any::<usize>().prop_map(Thr::Cell),
        3 => any::<usize>().prop_map(Thr::Between),
        1 => Just(Thr::BelowMin),
        1 => Just(Thr::AboveMax),
        2 => fl_strategy().prop_map(Thr::Value),
    ];
    let prior = prop_oneof![2 => Just(0usize), 1 => 1usize..=3, 1 => 1usize..=80];
    let short = prop_oneof![2 => Just(0usize), 2 => 1usize..=40, 1 => 0usize..=3000];
    (
        prop_oneof![Just(Dtype::F32), Just(Dtype::U8)],
        prop_oneof![3 => Just(true), 1 => Just(false)],
        cells,
        thr,
        prior,
        short,
        prop_oneof![10 => Just(0u8), 1 => Just(1u8), 1 => Just(2u8), 2 => 3u8..=7],
        prop_oneof![4 => Just(false), 1 => Just(true)],
        prop_oneof![3 => Just(0u8), 2 => 1u8..=6],
    )
        .prop_map(|(dtype, wide, cells, thr, prior_rows, short_by, wider, tiny, before)| SynCase { dtype, wide, cells, thr, prior_rows, short_by, wider, tiny, before })
        .boxed()
}

/// What one backend reports for a score matrix.
struct Reported<T> {
    name: &'static str,
    max: Option<T>,
    argmax: Option<MatrixCoordinates>,
    threshold: Vec<MatrixCoordinates>,
}

fn report<T, C, P>(name: &'static str, pli: &P, s: &StripedScores<T, C>, t: T) -> Reported<T>
where
    T: MatrixElement + PartialOrd,
    C: PositiveLength,
    P: Maximum<T, C> + Threshold<T, C>,
{
    Reported { name, max: pli.max(s), argmax: pli.argmax(s), threshold: pli.threshold(s, t) }
}

fn build_scores<T: MatrixElement, C: PositiveLength>(cells: &[Vec<T>], prior: Option<(usize, T)>, short_by: usize) -> StripedScores<T, C> {
    let mut s = StripedScores::<T, C>::empty();
    if let Some((extra, value)) = prior {
        // an earlier, taller use of the same buffer
        let r = cells.len() + extra;
        s.resize(r, r * C::USIZE);
        for i in 0..r {
            for j in 0..C::USIZE {
                s.matrix_mut()[i][j] = value;
            }
        }
    }
    let total = cells.len() * C::USIZE;
    s.resize(cells.len(), total - short_by.min(total));
    for (i, r) in cells.iter().enumerate() {
        for j in 0..C::USIZE {
            s.matrix_mut()[i][j] = r[j];
        }
    }
    s
}

fn pick_threshold(thr: &Thr, cells: &[Vec<f32>], cols: usize) -> f32 {
    let flat: Vec<f32> = cells.iter().flat_map(|r| r[..cols].iter().cloned()).collect();
    if flat.is_empty() {
        return match thr {
            Thr::Value(v) => v.0,
            _ => 0.0,
        };
    }
    let mn = flat.iter().cloned().fold(f32::INFINITY, f32::min);
    let mx = flat.iter().cloned().fold(f32::NEG_INFINITY, f32::max);
    match thr {
        Thr::Cell(i) => flat[i % flat.len()],
        Thr::Between(i) => {
            let v = flat[i % flat.len()];
            let next = flat.iter().cloned().filter(|&x| x > v).fold(f32::INFINITY, f32::min);
            if next.is_finite() && v.is_finite() {
                v + (next - v) / 2.0
            } else {
                v
            }
        }
        Thr::BelowMin => {
            if mn.is_finite() {
                mn - 1.0
            } else {
                f32::NEG_INFINITY
            }
        }
        Thr::AboveMax => {
            if mx.is_finite() {
                mx + 1.0
            } else {
                f32::INFINITY
            }
        }
        Thr::Value(v) => v.0,
    }
}

/// Order of the element type as an integer key, computed from the bit pattern: the reference must not depend on
/// how the floating-point unit of this thread is configured at the time (a `>=` on f32 does). No NaN here;
/// -0.0 and +0.0 share a key.
pub trait OrdKey: Copy {
    fn key(self) -> i64;
}
impl OrdKey for u8 {
    fn key(self) -> i64 {
        self as i64
    }
}
impl OrdKey for f32 {
    fn key(self) -> i64 {
        let b = self.to_bits();
        let mag = (b & 0x7fff_ffff) as i64;
        if b >> 31 == 1 {
            -mag
        } else {
            mag
        }
    }
}

/// The subnormal stand-in of a cell value (see `SynCase::tiny`).
fn tiny_of(x: f32) -> f32 {
    if !x.is_finite() {
        return x;
    }
    let sign = x.to_bits() & 0x8000_0000;
    let mag = ((x.abs() as f64) * 4.0).min(1048576.0) as u32;
    f32::from_bits(sign | mag)
}

/// What the thread did just before the matrix is examined (see `SynCase::before`).
fn do_before(kind: u8) {
    if kind == 0 {
        return;
    }
    let rows = vec![vec![Fl(1.0), Fl(-1.0), Fl(0.5), Fl(-2.0), Fl(f32::NEG_INFINITY)]; 4];
    let pssm = build_pssm::<Dna>(&MatSpec { rows, bg: BgSpec::Uniform, regime: "before".into() });
    let stripe = |idx: &[u8]| {
        let mut s: StripedSequence<Dna, U32> = Pipeline::<Dna, _>::generic().stripe(&syms::<Dna>(idx));
        s.configure(&pssm);
        s
    };
    let short = stripe(&[0, 1, 2]);
    let long = stripe(&(0..100u8).map(|i| i % 4).collect::<Vec<u8>>());
    match kind {
        1 => {
            let _ = Pipeline::<Dna, _>::avx2().unwrap().score(&pssm, &short);
        }
        2 => {
            let _g = Arm::Avx2.force();
            let _ = pssm.score(&short);
        }
        3 => {
            let mut out = StripedScores::<f32, U32>::empty();
            Pipeline::<Dna, _>::avx2().unwrap().score_rows_into(&pssm, &long, 0..0, &mut out);
        }
        4 => {
            let prows = vec![(0..21).map(|j| Fl(j as f32 * 0.25 - 2.0)).collect::<Vec<Fl>>(); 5];
            let ppssm = build_pssm::<Protein>(&MatSpec { rows: prows, bg: BgSpec::Uniform, regime: "before".into() });
            let mut s: StripedSequence<Protein, U32> = Pipeline::<Protein, _>::generic().stripe(&syms::<Protein>(&[3, 7]));
            s.configure(&ppssm);
            let _ = Pipeline::<Protein, _>::avx2().unwrap().score(&ppssm, &s);
        }
        5 => {
            let _ = Pipeline::<Dna, _>::sse2().unwrap().score(&pssm, &short);
        }
        _ => {
            let _ = Pipeline::<Dna, _>::avx2().unwrap().score(&pssm, &long);
        }
    }
}

/// Compare one backend's answers with a scan of all cells.
fn judge<T: MatrixElement + PartialOrd + std::fmt::Debug + OrdKey>(
    cells: &[Vec<T>],
    cols: usize,
    t: T,
    rep: &Reported<T>,
    info: &mut CaseInfo,
) -> Option<Failure> {
    let rows = cells.len();
    if rows == 0 {
        if rep.max.is_some() || rep.argmax.is_some() || !rep.threshold.is_empty() {
            return Some(Failure::new(format!("{}:empty", rep.name), "empty matrix must give None / None / []".to_string()));
        }
        return None;
    }
    let mut best = cells[0][0];
    for r in cells {
        for &x in &r[..cols] {
            if x.key() > best.key() {
                best = x;
            }
        }
    }
    info.comparisons += 3;
    match rep.max {
        Some(m) if m.key() == best.key() => {}
        other => {
            return Some(Failure::new(
                format!("{}:max", rep.name),
                format!("max() = {:?} but the largest cell is {:?} ({} rows)", other, best, rows),
            ))
        }
    }
    match rep.argmax {
        Some(mc) if mc.row < rows && mc.col < cols && cells[mc.row][mc.col].key() == best.key() => {}
        other => {
            let held = other.filter(|mc| mc.row < rows && mc.col < cols).map(|mc| cells[mc.row][mc.col]);
            return Some(Failure::new(
                format!("{}:argmax", rep.name),
                format!("argmax() = {:?} holding {:?} but the largest cell is {:?} ({} rows)", other, held, best, rows),
            ));
        }
    }
    let mut expect: Vec<(usize, usize)> = Vec::new();
    for (i, r) in cells.iter().enumerate() {
        for (j, &x) in r[..cols].iter().enumerate() {
            if x.key() >= t.key() {
                expect.push((i, j));
            }
        }
    }
    let mut got: Vec<(usize, usize)> = rep.threshold.iter().map(|m| (m.row, m.col)).collect();
    got.sort_unstable();
    expect.sort_unstable();
    if got != expect {
        return Some(Failure::new(
            format!("{}:threshold", rep.name),
            format!("threshold({:?}) returns {} cells, {} cells are >= t (first difference near {:?})", t, got.len(), expect.len(), got.iter().zip(expect.iter()).find(|(a, b)| a != b)),
        ));
    }
    None
}

fn judge_offsets<T: MatrixElement + PartialOrd + std::fmt::Debug + OrdKey>(
    name: &'static str,
    cells: &[Vec<T>],
    cols: usize,
    t: T,
    max: Option<T>,
    argmax: Option<usize>,
    thr: Vec<usize>,
    info: &mut CaseInfo,
) -> Option<Failure> {
    let rows = cells.len();
    let to_mc = |o: usize| MatrixCoordinates::new(if rows > 0 { o % rows } else { 0 }, if rows > 0 { o / rows } else { usize::MAX });
    if let Some(o) = argmax {
        if rows == 0 || o / rows >= cols {
            return Some(Failure::new(format!("{}:argmax", name), format!("offset {} out of range", o)));
        }
    }
    if thr.iter().any(|&o| rows == 0 || o / rows >= cols) {
        return Some(Failure::new(format!("{}:threshold", name), "offset out of range".to_string()));
    }
    let rep = Reported { name, max, argmax: argmax.map(to_mc), threshold: thr.into_iter().map(to_mc).collect() };
    judge(cells, cols, t, &rep, info)
}

fn run_syn<T, C>(cells: &[Vec<T>], t: T, wide_backends: bool, prior: Option<(usize, T)>, short_by: usize, info: &mut CaseInfo) -> Option<Failure>
where
    T: MatrixElement + PartialOrd + std::fmt::Debug + OrdKey,
    C: PositiveLength,
    Pipeline<Dna, lightmotif::pli::platform::Generic>: Maximum<T, C> + Threshold<T, C>,
    Pipeline<Dna, lightmotif::pli::platform::Sse2>: Maximum<T, C> + Threshold<T, C>,
    Pipeline<Protein, lightmotif::pli::platform::Sse2>: Maximum<T, C> + Threshold<T, C>,
{
    let _ = wide_backends;
    let s = build_scores::<T, C>(cells, prior, short_by);
    let cols = C::USIZE;
    let reps = vec![
        report("generic", &Pipeline::<Dna, _>::generic(), &s, t),
        report("sse2", &Pipeline::<Dna, _>::sse2().unwrap(), &s, t),
        report("sse2[protein]", &Pipeline::<Protein, _>::sse2().unwrap(), &s, t),
    ];
    for r in &reps {
        if let Some(f) = judge(cells, cols, t, r, info) {
            return Some(f);
        }
    }
    None
}

fn run_syn_generic<T, C>(cells: &[Vec<T>], t: T, prior: Option<(usize, T)>, short_by: usize, info: &mut CaseInfo) -> Option<Failure>
where
    T: MatrixElement + PartialOrd + std::fmt::Debug + OrdKey,
    C: PositiveLength,
    Pipeline<Dna, lightmotif::pli::platform::Generic>: Maximum<T, C> + Threshold<T, C>,
    Pipeline<Protein, lightmotif::pli::platform::Generic>: Maximum<T, C> + Threshold<T, C>,
{
    let s = build_scores::<T, C>(cells, prior, short_by);
    for r in [report("generic", &Pipeline::<Dna, _>::generic(), &s, t), report("generic[protein]", &Pipeline::<Protein, _>::generic(), &s, t)] {
        if let Some(f) = judge(cells, C::USIZE, t, &r, info) {
            return Some(f);
        }
    }
    None
}

fn run_syn_wide<T>(cells: &[Vec<T>], t: T, prior: Option<(usize, T)>, short_by: usize, info: &mut CaseInfo) -> Option<Failure>
where
    T: MatrixElement + PartialOrd + std::fmt::Debug + OrdKey,
    Pipeline<Dna, lightmotif::pli::platform::Generic>: Maximum<T, U32> + Threshold<T, U32>,
    Pipeline<Dna, lightmotif::pli::platform::Sse2>: Maximum<T, U32> + Threshold<T, U32>,
    Pipeline<Protein, lightmotif::pli::platform::Sse2>: Maximum<T, U32> + Threshold<T, U32>,
    Pipeline<Dna, lightmotif::pli::platform::Avx2>: Maximum<T, U32> + Threshold<T, U32>,
    Pipeline<Protein, lightmotif::pli::platform::Avx2>: Maximum<T, U32> + Threshold<T, U32>,
    Pipeline<Dna, lightmotif::pli::dispatch::Dispatch>: Maximum<T, U32> + Threshold<T, U32>,
{
    if let Some(f) = run_syn::<T, U32>(cells, t, true, prior, short_by, info) {
        return Some(f);
    }
    let s = build_scores::<T, U32>(cells, prior, short_by);
    let mut reps = vec![
        report("avx2", &Pipeline::<Dna, _>::avx2().unwrap(), &s, t),
        report("avx2[protein]", &Pipeline::<Protein, _>::avx2().unwrap(), &s, t),
    ];
    for arm in ARMS {
        let _g = arm.force();
        let name = match arm {
            Arm::Generic => "dispatch[generic]",
            Arm::Sse2 => "dispatch[sse2]",
            Arm::Avx2 => "dispatch[avx2]",
        };
        reps.push(report(name, &Pipeline::<Dna, _>::dispatch(), &s, t));
        // convenience methods (offsets)
        let cname = match arm {
            Arm::Generic => "StripedScores[generic]",
            Arm::Sse2 => "StripedScores[sse2]",
            Arm::Avx2 => "StripedScores[avx2]",
        };
        if let Some(f) = judge_offsets(cname, cells, 32, t, s.max(), s.argmax(), s.threshold(t), info) {
            return Some(f);
        }
    }
    for r in &reps {
        if let Some(f) = judge(cells, 32, t, r, info) {
            return Some(f);
        }
    }
    None
}

impl Sub for Synthetic {
    type Case = SynCase;
    fn name(&self) -> &'static str {
        "synthetic"
    }
    fn rule(&self) -> &'static str {
        "StripedScores<f32|u8> with 16 or 32 (and, 1 case in 6, 48 or 64, 1 case in 7, 1 / 4 / 7 / 12 / 20 - generic pipeline only) columns built cell by cell, half of them in a buffer that first held 1..80 more rows of the largest value and was resized down, and three in five with a max_index smaller than rows x C (explicit / seeded incl. all-negative, few-valued / spikes incl. +-inf, duplicated maxima; one f32 case in five with every finite cell and the threshold replaced by a subnormal number of the same sign and order), two in five examined right after the same thread scored something else (a sequence shorter than the motif, an empty row range, an ordinary sequence; AVX2, dispatcher, SSE2), x threshold (a cell value, between two values, below min, above max, arbitrary); generic, sse2, avx2, dispatch forced to each arm, StripedScores::{max,argmax,threshold} and Scores::{max,argmax,threshold} compared with a scan of all cells that orders the values by bit pattern (independent of the floating-point control state of the thread); sweep = one spike at every column x rows {1,2,3,33} x both dtypes x {all-negative, zero} base; non-trivial = rows >= 2 and (maximum outside row 0 / column 0, or every cell negative, or duplicated maximum)"
    }
    fn cases(&self, tier: Tier) -> u64 {
        tier.pick(150_000, 5_000_000)
    }
    fn strategy(&self, tier: Tier) -> BoxedStrategy<SynCase> {
        syn_strategy(tier)
    }
    fn sweep(&self, tier: Tier) -> Vec<SynCase> {
        let mut out = Vec::new();
        let rowset: &[usize] = if tier == Tier::Thorough { &[1, 2, 3, 33, 257, 1025] } else { &[1, 2, 3, 33] };
        for dtype in [Dtype::F32, Dtype::U8] {
            for wide in [true, false] {
                for &rows in rowset {
                    for col in 0..if wide { 32 } else { 16 } {
                        for (base, value) in [(-50.0f32, -3.0f32), (0.0, 7.0), (10.0, 10.0)] {
                            if dtype == Dtype::U8 && base < 0.0 {
                                continue;
                            }
                            for row in [0, rows / 2, rows - 1] {
                                out.push(SynCase {
                                    dtype,
                                    wide,
                                    cells: Cells::Spikes { rows, base: Fl(base), value: Fl(value), at: vec![(row, col)] },
                                    thr: Thr::Cell(row * 32 + col),
                                    prior_rows: 0,
                                    short_by: 0,
                                    wider: 0,
                                    tiny: false,
                                    before: 0,
                                });
                            }
                        }
                    }
                }
            }
        }
        // tall matrices: row indices beyond i8 / i16 ranges of the vectorised index bookkeeping
        // (65536 rows is the documented limit of the AVX2 u8 arg-maximum)
        for (rows, row, col) in [(300usize, 299usize, 5usize), (32769, 32768, 13), (40000, 39999, 30), (65536, 65535, 0), (65536, 32767, 31)] {
            for dtype in [Dtype::U8, Dtype::F32] {
                out.push(SynCase {
                    dtype,
                    wide: true,
                    cells: Cells::Spikes { rows, base: Fl(3.0), value: Fl(200.0), at: vec![(row, col)] },
                    thr: Thr::Cell(row * 32 + col),
                    prior_rows: 0,
                                    short_by: 0,
                                    wider: 0,
                    tiny: false,
                    before: 0,
                });
            }
        }
        if tier == Tier::Thorough {
            out.push(SynCase {
                dtype: Dtype::U8,
                wide: true,
                cells: Cells::Spikes { rows: 65536, base: Fl(3.0), value: Fl(200.0), at: vec![(65535, 17)] },
                thr: Thr::AboveMax,
                prior_rows: 0,
                                    short_by: 0,
                                    wider: 0,
                tiny: false,
                before: 0,
            });
            out.push(SynCase {
                dtype: Dtype::F32,
                wide: true,
                cells: Cells::Spikes { rows: 65536, base: Fl(-3.0), value: Fl(-1.0), at: vec![(65535, 9)] },
                thr: Thr::Cell(5),
                prior_rows: 0,
                                    short_by: 0,
                                    wider: 0,
                tiny: false,
                before: 0,
            });
        }
        out
    }
    fn check(&self, case: &SynCase, _cx: &Cx) -> Verdict {
        let cols = match case.wider {
            1 => 48,
            2 => 64,
            3 => 1,
            4 => 4,
            5 => 7,
            6 => 12,
            7 => 20,
            _ => {
                if case.wide {
                    32
                } else {
                    16
                }
            }
        };
        let mut cells = expand_cells(&case.cells, cols);
        let rows = cells.len();
        let mut info = CaseInfo::new();
        let mut thr = pick_threshold(&case.thr, &cells, cols);
        let tiny = case.tiny && case.dtype == Dtype::F32;
        if tiny {
            for r in cells.iter_mut() {
                for x in r.iter_mut() {
                    *x = tiny_of(*x);
                }
            }
            thr = tiny_of(thr);
        }
        info.class_if(tiny, "subnormal-cells");
        info.class_if(case.before != 0, "thread-scored-something-just-before");
        info.class_if(matches!(case.before, 1 | 2 | 4 | 5), "thread-scored-a-sequence-shorter-than-the-motif-just-before");
        // classification on the f32 view
        let flat: Vec<f32> = cells.iter().flat_map(|r| r.iter().cloned()).collect();
        let mx = flat.iter().cloned().fold(f32::NEG_INFINITY, f32::max);
        let n_max = flat.iter().filter(|&&x| x == mx).count();
        let first_max = flat.iter().position(|&x| x == mx).unwrap_or(0);
        let all_neg = !flat.is_empty() && flat.iter().all(|&x| x < 0.0);
        do_before(case.before);
        let outcome = match case.dtype {
            Dtype::F32 => {
                info.class("f32");
                info.class_if(all_neg, "all-negative");
                info.nontrivial = rows >= 2 && (all_neg || n_max >= 2 || (first_max / cols != 0 && first_max % cols != 0));
                let prior = if case.prior_rows > 0 { Some((case.prior_rows, f32::INFINITY)) } else { None };
                let f = match case.wider {
                    1 => run_syn::<f32, lightmotif::num::U48>(&cells, thr, false, prior, case.short_by, &mut info),
                    2 => run_syn::<f32, lightmotif::num::U64>(&cells, thr, false, prior, case.short_by, &mut info),
                    3 => run_syn_generic::<f32, lightmotif::num::U1>(&cells, thr, prior, case.short_by, &mut info),
                    4 => run_syn_generic::<f32, lightmotif::num::U4>(&cells, thr, prior, case.short_by, &mut info),
                    5 => run_syn_generic::<f32, lightmotif::num::U7>(&cells, thr, prior, case.short_by, &mut info),
                    6 => run_syn_generic::<f32, lightmotif::num::U12>(&cells, thr, prior, case.short_by, &mut info),
                    7 => run_syn_generic::<f32, lightmotif::num::U20>(&cells, thr, prior, case.short_by, &mut info),
                    _ => {
                        if case.wide {
                            run_syn_wide::<f32>(&cells, thr, prior, case.short_by, &mut info)
                        } else {
                            run_syn::<f32, U16>(&cells, thr, false, prior, case.short_by, &mut info)
                        }
                    }
                };
                f.or_else(|| {
                    // Scores (unstriped vector) API
                    let sc = Scores::new(flat.clone());
                    let t = thr;
                    let m = sc.max();
                    let a = sc.argmax();
                    let th = sc.threshold(&t);
                    if flat.is_empty() {
                        if m.is_some() || a.is_some() || !th.is_empty() {
                            return Some(Failure::new("Scores:empty", "empty Scores must give None / None / []".to_string()));
                        }
                        return None;
                    }
                    if m != Some(mx) || a.map(|i| flat[i]) != Some(mx) {
                        return Some(Failure::new("Scores:max", format!("Scores::max {:?} argmax {:?}, largest {:?}", m, a, mx)));
                    }
                    let exp: Vec<usize> = flat.iter().enumerate().filter(|(_, &x)| x >= t).map(|(i, _)| i).collect();
                    let mut th = th;
                    th.sort_unstable();
                    if th != exp {
                        return Some(Failure::new("Scores:threshold", "Scores::threshold differs from the definition".to_string()));
                    }
                    None
                })
            }
            Dtype::U8 => {
                info.class("u8");
                let cells8: Vec<Vec<u8>> = cells.iter().map(|r| r.iter().map(|&x| x.clamp(0.0, 255.0) as u8).collect()).collect();
                let flat8: Vec<u8> = cells8.iter().flat_map(|r| r.iter().cloned()).collect();
                let mx8 = flat8.iter().cloned().max().unwrap_or(0);
                let n8 = flat8.iter().filter(|&&x| x == mx8).count();
                let f8 = flat8.iter().position(|&x| x == mx8).unwrap_or(0);
                info.nontrivial = rows >= 2 && (n8 >= 2 || (f8 / cols != 0 && f8 % cols != 0));
                let t8 = thr.clamp(0.0, 255.0) as u8;
                let prior = if case.prior_rows > 0 { Some((case.prior_rows, 255u8)) } else { None };
                match case.wider {
                    1 => run_syn::<u8, lightmotif::num::U48>(&cells8, t8, false, prior, case.short_by, &mut info),
                    2 => run_syn::<u8, lightmotif::num::U64>(&cells8, t8, false, prior, case.short_by, &mut info),
                    3 => run_syn_generic::<u8, lightmotif::num::U1>(&cells8, t8, prior, case.short_by, &mut info),
                    4 => run_syn_generic::<u8, lightmotif::num::U4>(&cells8, t8, prior, case.short_by, &mut info),
                    5 => run_syn_generic::<u8, lightmotif::num::U7>(&cells8, t8, prior, case.short_by, &mut info),
                    6 => run_syn_generic::<u8, lightmotif::num::U12>(&cells8, t8, prior, case.short_by, &mut info),
                    7 => run_syn_generic::<u8, lightmotif::num::U20>(&cells8, t8, prior, case.short_by, &mut info),
                    _ => {
                        if case.wide {
                            run_syn_wide::<u8>(&cells8, t8, prior, case.short_by, &mut info)
                        } else {
                            run_syn::<u8, U16>(&cells8, t8, false, prior, case.short_by, &mut info)
                        }
                    }
                }
            }
        };
        info.class_if(case.wider == 0 && case.wide, "C=32");
        info.class_if(case.wider == 0 && !case.wide, "C=16");
        info.class_if(case.wider == 1, "C=48");
        info.class_if(case.wider == 2, "C=64");
        info.class_if(case.wider >= 3, "C=1/4/7/12/20(generic-only-layouts)");
        info.class_if(rows == 0, "empty");
        info.class_if(case.prior_rows > 0, "buffer-shrunk-from-a-taller-use");
        info.class_if(case.short_by > 0 && rows > 0, "max_index<rows*C");
        info.class_if(rows == 1, "rows=1");
        info.class_if(rows >= 70, "rows>=70");
        info.class_if(n_max >= 2, "duplicated-max");
        info.class_if(flat.iter().any(|x| x.is_infinite()), "has-inf");
        if rows > 0 {
            let col = first_max % cols;
            info.class(match col / 8 {
                0 => "max-in-cols-0..8",
                1 => "max-in-cols-8..16",
                2 => "max-in-cols-16..24",
                _ => "max-in-cols-24..32",
            });
        }
        match outcome {
            Some(f) => Verdict::Fail(f),
            None => Verdict::Pass(info),
        }
    }
}

// ---------------------------------------------------------------------------
// Sub-check 2: end to end — library-made PSSM (wildcard column -inf) x sequence
// ---------------------------------------------------------------------------

#[derive(Clone, Debug, Serialize, Deserialize)]
pub struct E2eCase {
    pub abc: Abc,
    pub seq: SeqSpec,
    pub mat: MatSpec,
    pub extra_wrap: usize,
}

pub struct EndToEnd;

fn e2e_run<A: Alphabet>(case: &E2eCase, info: &mut CaseInfo) -> Option<Failure>
where
    Pipeline<A, lightmotif::pli::dispatch::Dispatch>: Score<f32, A, U32>,
{
    let k = case.abc.k();
    let idx = case.seq.expand(k);
    let cells = case.mat.cells();
    let m = cells.len();
    let l = idx.len();
    let pssm = build_pssm::<A>(&case.mat);
    let symbols = syms::<A>(&idx);
    let r32 = ref_scores_f32(&cells, &idx);
    let n = r32.len();
    let best = r32.iter().cloned().fold(f32::NEG_INFINITY, f32::max);

    let mut striped: StripedSequence<A, U32> = Pipeline::<A, _>::generic().stripe(&symbols);
    striped.configure_wrap(m - 1 + case.extra_wrap);
    let rows = striped.matrix().rows() - striped.wrap();
    info.nontrivial = n >= 1 && rows >= 2 && best.is_finite() && best < 0.0;
    info.class_if(best.is_finite() && best < 0.0, "best-score-negative");
    info.class_if(n == 0, "L<M");
    info.class_if(!best.is_finite() && n > 0, "no-finite-score");

    let mut outs: Vec<(&'static str, StripedScores<f32, U32>)> = vec![
        ("generic", Pipeline::<A, _>::generic().score(&pssm, &striped)),
        ("sse2", Pipeline::<A, _>::sse2().unwrap().score(&pssm, &striped)),
        ("avx2", Pipeline::<A, _>::avx2().unwrap().score(&pssm, &striped)),
    ];
    for arm in ARMS {
        let _g = arm.force();
        outs.push((
            match arm {
                Arm::Generic => "dispatch[generic]",
                Arm::Sse2 => "dispatch[sse2]",
                Arm::Avx2 => "dispatch[avx2]",
            },
            pssm.score(&striped),
        ));
    }
    for (name, sc) in &outs {
        if n == 0 {
            if sc.max().is_some() || sc.argmax().is_some() {
                return Some(Failure::new(format!("e2e:{}:empty", name), "L < M: max() must be None".to_string()));
            }
            continue;
        }
        // every cell past the last valid position holds -inf
        for r in 0..sc.matrix().rows() {
            for c in 0..32 {
                let pos = c * rows + r;
                info.comparisons += 1;
                if pos >= n && sc.matrix()[r][c] != f32::NEG_INFINITY {
                    return Some(Failure::new(
                        format!("e2e:{}:padding", name),
                        format!("cell (row {}, col {}) = position {} >= L-M+1 = {} holds {:?}, not -inf", r, c, pos, n, sc.matrix()[r][c]),
                    ));
                }
            }
        }
        // max / argmax through every arm of the convenience methods
        for arm in ARMS {
            let _g = arm.force();
            let mx = sc.max();
            if mx != Some(best) {
                return Some(Failure::new(
                    format!("e2e:{}:max[{}]", name, arm.name()),
                    format!("StripedScores::max() = {:?}, best valid position scores {:?} (L={}, M={})", mx, best, l, m),
                ));
            }
            match sc.argmax() {
                Some(i) if (i < n && r32[i] == best) || (!best.is_finite() && i < rows * 32) => {}
                other => {
                    return Some(Failure::new(
                        format!("e2e:{}:argmax[{}]", name, arm.name()),
                        format!("StripedScores::argmax() = {:?}, not a position scoring the best {:?}", other, best),
                    ))
                }
            }
            if best.is_finite() {
                let mut th = sc.threshold(best);
                th.sort_unstable();
                let exp: Vec<usize> = (0..n).filter(|&i| r32[i] >= best).collect();
                if th != exp {
                    return Some(Failure::new(format!("e2e:{}:threshold[{}]", name, arm.name()), "threshold(best) is not the set of best positions".to_string()));
                }
            }
        }
    }
    None
}

impl Sub for EndToEnd {
    type Case = E2eCase;
    fn name(&self) -> &'static str {
        "end-to-end"
    }
    fn rule(&self) -> &'static str {
        "library-made scoring matrix (count -> freq -> log-odds, wildcard column -inf) x sequence, scored by generic / sse2 / avx2 / each dispatcher arm; every cell at position >= L-M+1 must be -inf and max / argmax / threshold(best) through each arm must designate the best valid position; non-trivial = at least one valid position, >= 2 rows and a negative finite best score"
    }
    fn cases(&self, tier: Tier) -> u64 {
        tier.pick(40_000, 1_000_000)
    }
    fn strategy(&self, tier: Tier) -> BoxedStrategy<E2eCase> {
        abc_strategy()
            .prop_flat_map(move |abc| {
                (
                    Just(abc),
                    seq_strategy(abc.k(), len_strategy(tier)),
                    mat_strategy(abc, width_strategy(30), Regimes { library: true, finite: false, neginf: true, small_int: false, near_tie: false }),
                    prop_oneof![3 => Just(0usize), 1 => 1usize..=35],
                )
            })
            .prop_map(|(abc, seq, mat, extra_wrap)| E2eCase { abc, seq, mat, extra_wrap })
            .boxed()
    }
    fn check(&self, case: &E2eCase, _cx: &Cx) -> Verdict {
        if case.mat.m() == 0 {
            return Verdict::Pass(CaseInfo::new());
        }
        let mut info = CaseInfo::new();
        info.class_if(case.abc == Abc::Dna, "dna");
        info.class_if(case.abc == Abc::Protein, "protein");
        let f = with_abc!(case.abc, A => e2e_run::<A>(case, &mut info));
        match f {
            Some(f) => Verdict::Fail(f),
            None => Verdict::Pass(info),
        }
    }
}

pub fn property() -> Property {
    Property {
        id: "C07",
        subs: vec![Box::new(Synthetic), Box::new(EndToEnd)],
        assumptions: vec![
            "no NaN cells (the property excludes them)",
            "no tie rule is imposed on argmax: any cell holding the maximum is accepted",
            "AVX2 argmax limits respected: at most 65536 rows (u8), max_index <= u32::MAX (documented panics are not provoked)",
            "NEON backend not executed on this host",
        ],
    }
}
