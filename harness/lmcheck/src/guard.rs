//! Guard allocator (cargo feature `guard-alloc`): the second memory engine of C06.
//!
//! AddressSanitizer instruments the loads and stores the compiler emits, but the SIMD kernels of
//! lightmotif write their results with non-temporal stores (`_mm256_stream_ps`,
//! `_mm256_stream_si256`, `_mm_stream_ps`), which `core::arch` implements with inline `asm!` -
//! invisible to the sanitizer. An out-of-bounds *write* by a scoring or striping kernel therefore
//! passes the ASan build silently. This allocator makes such writes observable without any
//! instrumentation: every heap block is surrounded by `GUARD` bytes of a known pattern on both
//! sides, and the pattern is verified when the block is freed (and when it is re-allocated). A
//! damaged guard aborts the process with a `GUARD-ALLOC:` line; `bin/c06.py` then locates the
//! case through the per-shard trace files, exactly as for a sanitizer abort.
//!
//! Fresh blocks are filled with 0xAA (`alloc_zeroed` still zeroes), so that uninitialised memory is recognisable.
//!
//! Limits: only writes landing within `GUARD` bytes of a heap block are seen (a contiguous overrun
//! always touches the guard first); out-of-bounds reads are the ASan build's business.

use std::alloc::{GlobalAlloc, Layout, System};
use std::sync::atomic::{AtomicU64, Ordering};

pub const GUARD: usize = 2048;
const PATTERN: u8 = 0xA5;
const POISON: u8 = 0xAA;

pub struct GuardAlloc;

pub static BLOCKS: AtomicU64 = AtomicU64::new(0);

#[inline]
fn outer(layout: Layout) -> Layout {
    // GUARD is a multiple of every alignment used here (<= 2048), so base + GUARD keeps the alignment
    let align = layout.align().max(16);
    unsafe { Layout::from_size_align_unchecked(layout.size() + 2 * GUARD, align) }
}

fn report(kind: &str, size: usize, damaged: usize, first: usize) -> ! {
    use std::io::Write;
    let mut buf = [0u8; 256];
    let n = {
        let mut cur = std::io::Cursor::new(&mut buf[..]);
        let _ = write!(
            cur,
            "\nGUARD-ALLOC: heap block of {} bytes: {} guard bytes overwritten {} the block (first at offset {}{})\n",
            size,
            damaged,
            kind,
            if kind == "after" { "+" } else { "-" },
            first
        );
        cur.position() as usize
    };
    let _ = std::io::stderr().write_all(&buf[..n]);
    std::process::abort()
}

unsafe fn verify(base: *mut u8, size: usize) {
    let before = std::slice::from_raw_parts(base, GUARD);
    let after = std::slice::from_raw_parts(base.add(GUARD + size), GUARD);
    if before.iter().any(|&b| b != PATTERN) {
        let damaged = before.iter().filter(|&&b| b != PATTERN).count();
        let first = GUARD - before.iter().rposition(|&b| b != PATTERN).unwrap();
        report("before", size, damaged, first);
    }
    if after.iter().any(|&b| b != PATTERN) {
        let damaged = after.iter().filter(|&&b| b != PATTERN).count();
        let first = after.iter().position(|&b| b != PATTERN).unwrap();
        report("after", size, damaged, first);
    }
}

unsafe impl GlobalAlloc for GuardAlloc {
    unsafe fn alloc(&self, layout: Layout) -> *mut u8 {
        if layout.align() > GUARD {
            return System.alloc(layout);
        }
        let base = System.alloc(outer(layout));
        if base.is_null() {
            return base;
        }
        std::ptr::write_bytes(base, PATTERN, GUARD);
        std::ptr::write_bytes(base.add(GUARD + layout.size()), PATTERN, GUARD);
        // fresh blocks are poisoned: memory the program reads without having written it is not zero by luck
        std::ptr::write_bytes(base.add(GUARD), POISON, layout.size());
        BLOCKS.fetch_add(1, Ordering::Relaxed);
        base.add(GUARD)
    }

    unsafe fn alloc_zeroed(&self, layout: Layout) -> *mut u8 {
        let p = self.alloc(layout);
        if !p.is_null() {
            std::ptr::write_bytes(p, 0, layout.size());
        }
        p
    }

    unsafe fn dealloc(&self, ptr: *mut u8, layout: Layout) {
        if layout.align() > GUARD {
            return System.dealloc(ptr, layout);
        }
        let base = ptr.sub(GUARD);
        verify(base, layout.size());
        System.dealloc(base, outer(layout));
    }
    // realloc: the default implementation (alloc + copy + dealloc) goes through the two functions above,
    // so a block is verified whenever it moves
}
